"""Exact rational reference model for tiny finite MDPs (no numpy, no msdm imports).

An MDP *item* is a plain picklable tuple (so it can be shipped to workers and stored in replays):

    ('mdp', n, T, absorbing, init, gamma)
      T[s]   = tuple of (action, dist, rew)      actions in the order `actions(s)` returns them
      dist   = tuple of (next_state, Fraction)   entries with probability 0 are allowed
      rew    = Fraction (same for every successor) or tuple of Fractions aligned with dist
      absorbing = tuple of explicitly absorbing states
      init   = tuple of (state, Fraction)
      gamma  = Fraction
States are 0..n-1.  Everything below is computed over fractions.Fraction.
"""
from fractions import Fraction as F
from itertools import product

NEG_INF = float('-inf')
POS_INF = float('inf')


def solve(A, b):
    """Gaussian elimination over Fractions; returns None if singular."""
    n = len(A)
    M = [[F(v) for v in A[i]] + [F(b[i])] for i in range(n)]
    for c in range(n):
        p = next((r for r in range(c, n) if M[r][c] != 0), None)
        if p is None:
            return None
        M[c], M[p] = M[p], M[c]
        inv = 1 / M[c][c]
        M[c] = [v * inv for v in M[c]]
        for r in range(n):
            if r != c and M[r][c] != 0:
                f = M[r][c]
                M[r] = [vr - f * vc for vr, vc in zip(M[r], M[c])]
    return [M[i][n] for i in range(n)]


def reach_sets(adj, n):
    out = []
    for s in range(n):
        seen = {s}
        st = [s]
        while st:
            u = st.pop()
            for v in adj[u]:
                if v not in seen:
                    seen.add(v)
                    st.append(v)
        out.append(seen)
    return out


class Spec:
    def __init__(self, item):
        tag, n, T, absorbing, init, gamma = item
        assert tag == 'mdp'
        self.item = item
        self.n = n
        self.acts = [[a for a, _, _ in T[s]] for s in range(n)]
        self.T = [dict() for _ in range(n)]      # T[s][a] = {ns: p>0}
        self.Tall = [dict() for _ in range(n)]   # incl. zero entries, in given order: list of (ns, p)
        self.R = [dict() for _ in range(n)]      # R[s][a] = {ns: r} for every listed ns
        for s in range(n):
            for a, dist, rew in T[s]:
                self.Tall[s][a] = [(ns, F(p)) for ns, p in dist]
                d = {}
                for ns, p in dist:
                    if p != 0:
                        d[ns] = d.get(ns, 0) + F(p)
                self.T[s][a] = d
                if isinstance(rew, tuple):
                    self.R[s][a] = {ns: F(r) for (ns, _), r in zip(dist, rew)}
                else:
                    self.R[s][a] = {ns: F(rew) for ns, _ in dist}
        self.abs_explicit = frozenset(absorbing)
        self.init = {s: F(p) for s, p in init}
        self.gamma = F(gamma)
        self._abs = None
        self._trap = None

    # ----- structure
    def actions(self, s):
        return self.acts[s]

    def reward(self, s, a, ns):
        return self.R[s][a].get(ns, F(0))

    def sa_reward(self, s, a):
        return sum((p * self.R[s][a][ns] for ns, p in self.T[s][a].items()), F(0))

    def implicit_absorbing(self):
        out = set()
        for s in range(self.n):
            if not self.acts[s]:
                continue
            if all(self.T[s][a].get(s, 0) == 1 for a in self.acts[s]) and \
               all(self.R[s][a][ns] == 0 for a in self.acts[s] for ns in self.T[s][a]):
                out.add(s)
        return out

    def absorbing(self):
        if self._abs is None:
            self._abs = frozenset(self.abs_explicit | self.implicit_absorbing())
        return self._abs

    def adjacency(self):
        return [{ns for a in self.acts[s] for ns in self.T[s][a]} for s in range(self.n)]

    def reachable(self, expand_absorbing=False, expand_initial_absorbing=True):
        """Positive-probability closure from the initial support; successors of explicitly
        absorbing states are not expanded (that is what the functional `is_absorbing` says).
        Whether an absorbing state that is itself in the initial support is expanded is left open
        by the property (expand_initial_absorbing selects)."""
        S0 = [s for s, p in self.init.items() if p > 0]
        seen = set(S0)
        st = list(S0)
        while st:
            u = st.pop()
            if u in self.abs_explicit and not expand_absorbing and not (expand_initial_absorbing and u in S0):
                continue
            for a in self.acts[u]:
                for v in self.T[u][a]:
                    if v not in seen:
                        seen.add(v)
                        st.append(v)
        return seen

    def trap(self):
        """States that cannot reach an absorbing state under any policy (only meaningful, and only
        non-empty, when undiscounted) -- the property's 'states that can never reach an absorbing state'."""
        if self._trap is None:
            if self.gamma < 1:
                self._trap = frozenset()
            else:
                A = self.absorbing()
                rs = reach_sets(self.adjacency(), self.n)
                self._trap = frozenset(s for s in range(self.n) if not (rs[s] & A))
        return self._trap

    def dead_ends(self):
        return {s for s in range(self.n) if not self.acts[s]}

    def rewards_nonpositive(self):
        return all(self.R[s][a][ns] <= 0 for s in range(self.n) for a in self.acts[s] for ns in self.T[s][a])

    def max_reward(self):
        return max(self.R[s][a][ns] for s in range(self.n) for a in self.acts[s] for ns in self.T[s][a])

    def min_reward(self):
        return min(self.R[s][a][ns] for s in range(self.n) for a in self.acts[s] for ns in self.T[s][a])


def chain_of(spec, pi, zero=frozenset()):
    """Markov chain and one-step reward of stochastic policy pi (pi[s] = {a: prob}); states in
    absorbing ∪ zero have no outgoing mass and no reward."""
    n = spec.n
    A = spec.absorbing() | zero
    P = [[F(0)] * n for _ in range(n)]
    r = [F(0)] * n
    for s in range(n):
        if s in A:
            continue
        for a, pa in pi[s].items():
            pa = F(pa)
            if pa == 0:
                continue
            r[s] += pa * spec.sa_reward(s, a)
            for ns, p in spec.T[s][a].items():
                P[s][ns] += pa * p
    return P, r, A


def eval_policy(spec, pi, zero=frozenset()):
    """Exact V^pi (list; Fraction or -inf) and Q^pi ({(s,a): ...}); states in absorbing ∪ zero are
    worth 0.  Undiscounted: total-reward semantics, -inf iff a negative closed class is reachable.
    Raises ValueError on a positive-reward closed class when undiscounted."""
    n = spec.n
    g = spec.gamma
    P, r, A = chain_of(spec, pi, zero)
    if g < 1:
        M = [[(1 if i == j else 0) - g * P[i][j] for j in range(n)] for i in range(n)]
        V = solve(M, r)
    else:
        adj = [{j for j in range(n) if P[i][j] > 0} for i in range(n)]
        rc = reach_sets(adj, n)
        rec = [s not in A and all(s in rc[t] for t in rc[s]) for s in range(n)]
        negrec, zerorec = set(), set()
        for s in range(n):
            if rec[s]:
                cls = rc[s]
                if any(r[t] > 0 for t in cls) and not any(r[t] < 0 for t in cls):
                    raise ValueError('positive recurrent class')
                if any(r[t] != 0 for t in cls):
                    if any(r[t] > 0 for t in cls):
                        # mixed signs on a closed class: decide by stationary average sign
                        raise ValueError('mixed-sign recurrent class')
                    negrec |= cls
                else:
                    zerorec |= cls
        bad = {s for s in range(n) if rc[s] & negrec}
        idx = [s for s in range(n) if s not in bad and s not in A and s not in zerorec]
        pos = {s: i for i, s in enumerate(idx)}
        M = [[(1 if i == j else 0) - P[s][t] for j, t in enumerate(idx)] for i, s in enumerate(idx)]
        x = solve(M, [r[s] for s in idx]) if idx else []
        assert x is not None
        V = [NEG_INF if s in bad else (x[pos[s]] if s in pos else F(0)) for s in range(n)]
    Q = q_from_v(spec, V, zero)
    return V, Q


def q_from_v(spec, V, zero=frozenset()):
    g = spec.gamma
    A = spec.absorbing() | zero
    Q = {}
    for s in range(spec.n):
        for a in spec.acts[s]:
            tot = spec.sa_reward(s, a)
            inf = False
            for ns, p in spec.T[s][a].items():
                if ns in A:
                    continue
                if V[ns] == NEG_INF:
                    inf = True
                else:
                    tot += g * p * V[ns]
            Q[s, a] = NEG_INF if inf else tot
    return Q


def transient_steps(spec, pi, zero=frozenset()):
    """Expected number of steps spent before entering absorbing ∪ zero ∪ (a closed class of the
    chain).  Always finite.  Returns list of Fractions."""
    n = spec.n
    P, r, A = chain_of(spec, pi, zero)
    adj = [{j for j in range(n) if P[i][j] > 0} for i in range(n)]
    rc = reach_sets(adj, n)
    rec = [s not in A and all(s in rc[t] for t in rc[s]) for s in range(n)]
    idx = [s for s in range(n) if s not in A and not rec[s]]
    pos = {s: i for i, s in enumerate(idx)}
    M = [[(1 if i == j else 0) - P[s][t] for j, t in enumerate(idx)] for i, s in enumerate(idx)]
    x = solve(M, [1] * len(idx)) if idx else []
    assert x is not None
    return [x[pos[s]] if s in pos else F(0) for s in range(n)]


def det_policies(spec, zero=frozenset()):
    A = spec.absorbing() | zero
    free = [s for s in range(spec.n) if s not in A and spec.acts[s]]
    for combo in product(*[spec.acts[s] for s in free]):
        pi = {s: {} for s in range(spec.n)}
        for s, a in zip(free, combo):
            pi[s] = {a: 1}
        yield pi


def optimal(spec, zero=frozenset(), want_steps=False):
    """Pointwise max over all deterministic stationary policies (exact).  Returns V*, Q*
    (and, if want_steps, the max over policies/states of expected transient steps)."""
    n = spec.n
    A = spec.absorbing() | zero
    best = [NEG_INF] * n
    nmax = F(0)
    for pi in det_policies(spec, zero):
        V, _ = eval_policy(spec, pi, zero)
        best = [v if (b == NEG_INF or (v != NEG_INF and v > b)) else b for b, v in zip(best, V)]
        if want_steps:
            nmax = max([nmax] + transient_steps(spec, pi, zero))
    for s in A:
        best[s] = F(0)
    Q = q_from_v(spec, best, zero)
    if want_steps:
        return best, Q, nmax
    return best, Q


def all_proper(spec, explicit_only=False, only_reachable=False):
    """Every deterministic policy reaches an absorbing state with probability 1 from every state.
    explicit_only: only states the functional `is_absorbing` declares count (what planners that
    work on the functional interface can see).  only_reachable: only from the states that can be reached with positive
    probability from the initial support, also through absorbing states (states nothing leads to do not matter to a planner that starts there)."""
    A = spec.abs_explicit if explicit_only else spec.absorbing()
    n = spec.n
    # (transitions declared out of absorbing states are followed too: a planner working on the functional interface may look at them)
    starts = spec.reachable(expand_absorbing=True) if only_reachable else set(range(n))
    for pi in det_policies(spec):
        P, r, _ = chain_of(spec, pi)
        adj = [{j for j in range(n) if P[i][j] > 0} for i in range(n)]
        rc = reach_sets(adj, n)
        for s in range(n):
            if s in A or s not in starts:
                continue
            # proper from s iff every state reachable from s can reach A
            if any(not (rc[t] & A) for t in rc[s]):
                return False
    return True


def expected_steps(spec, pi):
    """Expected steps to absorption under pi (inf if not proper from that state)."""
    n = spec.n
    A = spec.absorbing()
    P, r, _ = chain_of(spec, pi)
    adj = [{j for j in range(n) if P[i][j] > 0} for i in range(n)]
    rc = reach_sets(adj, n)
    ok = [all(rc[t] & A for t in rc[s]) for s in range(n)]
    idx = [s for s in range(n) if s not in A and ok[s]]
    pos = {s: i for i, s in enumerate(idx)}
    M = [[(1 if i == j else 0) - P[s][t] for j, t in enumerate(idx)] for i, s in enumerate(idx)]
    x = solve(M, [1] * len(idx)) if idx else []
    return [F(0) if s in A else (x[pos[s]] if s in pos else POS_INF) for s in range(n)]


def occupancy(spec, pi):
    """Discounted expected visit counts from the initial distribution, where absorbing states emit
    nothing (entering one is counted once).  Undiscounted: +inf on initial-reachable recurrent
    (non-absorbing closed-class) states."""
    n = spec.n
    g = spec.gamma
    P, r, A = chain_of(spec, pi)
    p0 = [spec.init.get(s, F(0)) for s in range(n)]
    if g < 1:
        # occ = p0 (I - gP)^-1  -> solve (I - gP)^T occ = p0
        M = [[(1 if i == j else 0) - g * P[j][i] for j in range(n)] for i in range(n)]
        return solve(M, p0)
    adj = [{j for j in range(n) if P[i][j] > 0} for i in range(n)]
    rc = reach_sets(adj, n)
    rec = [s not in A and all(s in rc[t] for t in rc[s]) for s in range(n)]
    Pt = [[F(0) if rec[i] else P[i][j] for j in range(n)] for i in range(n)]
    M = [[(1 if i == j else 0) - Pt[j][i] for j in range(n)] for i in range(n)]
    occ = solve(M, p0)
    reach0 = set()
    for s in range(n):
        if p0[s] > 0:
            reach0 |= rc[s]
    return [POS_INF if (rec[s] and s in reach0) else occ[s] for s in range(n)]


def gain_of_policy(spec, pi):
    """Exact long-run average reward (gain) of stochastic policy pi from every state.
    Absorbing states are zero-reward closed classes (gain 0)."""
    n = spec.n
    P, r, A = chain_of(spec, pi)
    adj = [{j for j in range(n) if P[i][j] > 0} for i in range(n)]
    rc = reach_sets(adj, n)
    rec = [s not in A and all(s in rc[t] for t in rc[s]) for s in range(n)]
    g = [None] * n
    for s in A:
        g[s] = F(0)
    done = set()
    for s in range(n):
        if rec[s] and s not in done:
            cls = sorted(rc[s])
            done |= set(cls)
            k = len(cls)
            # stationary distribution: mu (P_C - I) = 0, sum mu = 1
            M = [[P[cls[j]][cls[i]] - (1 if i == j else 0) for j in range(k)] for i in range(k)]
            M[-1] = [F(1)] * k
            b = [F(0)] * (k - 1) + [F(1)]
            mu = solve(M, b)
            assert mu is not None
            gc = sum((mu[i] * r[cls[i]] for i in range(k)), F(0))
            for t in cls:
                g[t] = gc
    T = [s for s in range(n) if g[s] is None]
    if T:
        pos = {s: i for i, s in enumerate(T)}
        M = [[(1 if i == j else 0) - P[s][t] for j, t in enumerate(T)] for i, s in enumerate(T)]
        b = [sum((P[s][t] * g[t] for t in range(n) if g[t] is not None), F(0)) for s in T]
        x = solve(M, b)
        assert x is not None
        for s in T:
            g[s] = x[pos[s]]
    return g


def optimal_gain(spec):
    best = None
    for pi in det_policies(spec):
        g = gain_of_policy(spec, pi)
        best = g if best is None else [max(a, b) for a, b in zip(best, g)]
    return best
