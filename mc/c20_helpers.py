"""Helpers for props/C20.py (built-in domains are well-formed).

* layout enumeration (all h x w grids over an alphabet with at most k non-default cells),
* a generic explicit-state BFS + well-formedness audit that only talks to the REAL functional
  interface of an msdm domain (initial_state_dist / actions / next_state_dist / reward /
  is_absorbing / observation_dist) and then builds the tabular arrays and plans,
* independent geometry written from the documented meaning of the layouts (NOT read from the
  objects under test): the plain grid world (oracle for its semantic clauses) and position models
  of the windy grid / heaven-or-hell grid (used ONLY for class predicates that attribute a
  violation to a recorded finding, never to decide that something is a violation)."""
import itertools
import math

TOL = 1e-9


# ------------------------------------------------------------------------------------------------
# layouts
# ------------------------------------------------------------------------------------------------
def layouts(h, w, alphabet, default, kmax, need):
    """Every h x w grid (tuple of row strings, first row = top line of the layout string) over
    `alphabet` with at most `kmax` cells different from `default` (kmax=None: no limit) and at
    least one cell whose symbol is in `need`.  Simplest (fewest special cells) first."""
    n = h * w
    nd = [c for c in alphabet if c != default]
    kmax = n if kmax is None else min(kmax, n)
    for k in range(0, kmax + 1):
        for cells in itertools.combinations(range(n), k):
            for syms in itertools.product(nd, repeat=k):
                if not any(s in need for s in syms):
                    continue
                g = [default] * n
                for c, s in zip(cells, syms):
                    g[c] = s
                yield tuple(''.join(g[i * w:(i + 1) * w]) for i in range(h))


def cut_layouts(h, w, alphabet, default, cutalpha, extra, start, kmax):
    """The "cut family" on an h x w grid: one complete row or column carries a word over `cutalpha`
    (every word), one `start` cell anywhere off that line, and at most `extra` (0 or 1) further
    cells carrying any non-default symbol.  Layouts that layouts(..., kmax, ...) already yields
    (at most kmax non-default cells) and duplicates are skipped."""
    n = h * w
    nd = [c for c in alphabet if c != default]
    seen = set()
    lines = [[r * w + c for c in range(w)] for r in range(h)] + [[r * w + c for r in range(h)] for c in range(w)]
    kk = n if kmax is None else kmax
    for line in lines:
        rest = [c for c in range(n) if c not in line]
        for word in itertools.product(cutalpha, repeat=len(line)):
            for st in rest:
                g = [default] * n
                for c, s in zip(line, word):
                    g[c] = s
                g[st] = start
                variants = [g]
                if extra:
                    for e in rest:
                        if e == st:
                            continue
                        for s in nd:
                            g2 = list(g)
                            g2[e] = s
                            variants.append(g2)
                for v in variants:
                    if sum(1 for c in v if c != default) <= kk:
                        continue
                    rows = tuple(''.join(v[i * w:(i + 1) * w]) for i in range(h))
                    if rows in seen:
                        continue
                    seen.add(rows)
                    yield rows


def count_layouts(h, w, n_alphabet, kmax, n_need):
    """Closed-form size of layouts(...) (used for the bounds record)."""
    n = h * w
    nd = n_alphabet - 1
    kmax = n if kmax is None else min(kmax, n)
    return sum(math.comb(n, k) * (nd ** k - (nd - n_need) ** k) for k in range(kmax + 1))


# ------------------------------------------------------------------------------------------------
# generic audit
# ------------------------------------------------------------------------------------------------
class Problem:
    __slots__ = ('kind', 'detail', 'exc', 'where', 'key')

    def __init__(self, kind, detail, exc=None, where=None, key=None):
        self.kind = kind          # machine-readable label
        self.detail = detail      # jsonable dict
        self.exc = exc            # the exception object, if the problem is an exception
        self.where = where        # which call / array raised
        self.key = key            # offending state (successor / KeyError key), if any


class Audit:
    """Result of exploring one domain instance."""

    def __init__(self):
        self.problems = []
        self.n_states = 0          # BFS states (reachable from the initial distribution)
        self.n_extra_states = 0    # members of state_list not reached by the BFS (audited as well)
        self.n_edges = 0           # (state, action, successor) triples with positive probability
        self.n_sa = 0              # (state, action) pairs the transition function was applied to
        self.n_obs = 0             # observation distributions audited
        self.depth = 0
        self.reached = {}          # state -> depth
        self.absorbing = set()
        self.self_loops = set()    # actions a for which some reached non-absorbing s has all mass on s
        self.outside_pos = []      # (s, a, ns): positive-probability successors outside state_list
        self.outside_zero = []     # (s, a, ns): zero-probability entries outside state_list
        self.state_list = None
        self.planned = False
        self.truncated = False     # BFS stopped at the state bound
        self.vi_converged = None
        self.edges = {}            # (s, a) -> {ns: p}  (positive only)
        self.rewards = {}          # (s, a, ns) -> float reward reported for a positive-probability edge

    def add(self, kind, detail, exc=None, where=None, key=None):
        if len(self.problems) < 200:
            self.problems.append(Problem(kind, detail, exc, where, key))


def _exc_detail(where, e, **kw):
    d = {'where': where, 'error': repr(e)[:300]}
    d.update({k: repr(v) for k, v in kw.items()})
    return d


def _caught():
    """Exception classes that count as 'the library raised' (msdm's DomainError derives from
    BaseException)."""
    try:
        from msdm.core.table.tableindex import DomainError
        return (Exception, DomainError)
    except Exception:  # pragma: no cover
        return (Exception,)


def check_dist(items, au, what, ctx):
    """items: list of (event, prob).  Normalised, no negative / non-finite probabilities."""
    tot = 0.0
    ok = True
    seen = set()
    for e, p in items:
        try:
            pf = float(p)
        except Exception:
            au.add(what + ':non_numeric_probability', dict(ctx, event=repr(e), p=repr(p)))
            return False
        if not math.isfinite(pf) or pf < 0:
            au.add(what + ':negative_or_nonfinite_probability', dict(ctx, event=repr(e), p=pf))
            ok = False
        if e in seen:
            au.add(what + ':duplicate_event', dict(ctx, event=repr(e)))
            ok = False
        seen.add(e)
        tot += pf
    if not abs(tot - 1.0) <= TOL:
        au.add(what + ':not_normalised', dict(ctx, total=tot, items=repr(items)[:300]))
        ok = False
    return ok


def audit(dom, pomdp=False, plan=True, vi_cap=None, max_states=10000):
    """Explicit-state BFS over everything reachable from the initial distribution (absorbing
    states are audited but not expanded: the process ends there), then every remaining member of
    state_list, then the tabular arrays, then planning.

    The BFS runs BEFORE the library is asked for its state list (which may itself be a reachability
    analysis) and stops at `max_states` (the caller passes a bound derived from the layout): a
    domain whose reachable set exceeds what its layout allows is reported, and the steps that would
    not terminate on it (state list inference, arrays, planning) are skipped."""
    CA = _caught()
    au = Audit()

    # ---- initial distribution --------------------------------------------------------------
    try:
        init = list(dom.initial_state_dist().items())
    except CA as e:
        au.add('exception:initial_state_dist', _exc_detail('initial_state_dist', e), e, 'initial_state_dist')
        init = []
    check_dist(init, au, 'initial_dist', {})

    # ---- BFS -------------------------------------------------------------------------------
    zeros = []                 # (s, a, ns) entries carrying probability 0

    def visit(s, expand):
        """audit state s; return positive-probability successors if it is to be expanded"""
        out = []
        try:
            absorbing = bool(dom.is_absorbing(s))
        except CA as e:
            au.add('exception:is_absorbing', _exc_detail('is_absorbing', e, state=s), e, 'is_absorbing', key=s)
            return out
        if absorbing:
            au.absorbing.add(s)
        try:
            acts = list(dom.actions(s))
        except CA as e:
            au.add('exception:actions', _exc_detail('actions', e, state=s), e, 'actions', key=s)
            return out
        if len(acts) < 1:
            au.add('no_actions', {'state': repr(s)}, key=s)
        for a in acts:
            ctx = {'state': repr(s), 'action': repr(a)}
            try:
                dist = dom.next_state_dist(s, a)
                its = list(dist.items())
            except CA as e:
                au.add('exception:next_state_dist', _exc_detail('next_state_dist', e, state=s, action=a), e,
                       'next_state_dist', key=s)
                continue
            au.n_sa += 1
            check_dist(its, au, 'next_state_dist', ctx)
            pos = {}
            for ns, p in its:
                if p > 0:
                    pos[ns] = pos.get(ns, 0.0) + p
                elif p == 0:
                    zeros.append((s, a, ns))
            au.edges[(s, a)] = pos
            if expand and not absorbing and len(pos) == 1 and s in pos:
                au.self_loops.add(a)
            for ns, p in pos.items():
                au.n_edges += 1
                try:
                    rew = dom.reward(s, a, ns)
                    rf = float(rew)
                    au.rewards[(s, a, ns)] = rf
                    if not math.isfinite(rf):
                        au.add('reward_not_finite', dict(ctx, successor=repr(ns), reward=repr(rew)))
                except CA as e:
                    au.add('exception:reward', _exc_detail('reward', e, state=s, action=a, successor=ns), e,
                           'reward', key=s)
                if pomdp:
                    try:
                        od = list(dom.observation_dist(a, ns).items())
                        au.n_obs += 1
                        check_dist(od, au, 'observation_dist', {'action': repr(a), 'next_state': repr(ns)})
                    except CA as e:
                        au.add('exception:observation_dist',
                               _exc_detail('observation_dist', e, action=a, next_state=ns), e, 'observation_dist', key=ns)
                if expand and not absorbing:
                    out.append(ns)
        return out

    frontier = []
    for s, p in init:
        if p > 0 and s not in au.reached:
            au.reached[s] = 0
            frontier.append(s)
    d = 0
    while frontier and not au.truncated:
        nxt = []
        for s in frontier:
            for ns in visit(s, True):
                if ns not in au.reached:
                    au.reached[ns] = d + 1
                    nxt.append(ns)
            if len(au.reached) > max_states:
                au.truncated = True
                break
        if nxt:
            d += 1
        frontier = nxt
    au.depth = d
    au.n_states = len(au.reached)
    if au.truncated:
        au.add('reachable_states_exceed_layout_bound',
               {'bound': max_states, 'reached_so_far': len(au.reached), 'example': repr(next(reversed(au.reached)))})
        return au

    # ---- state list (asked for only now, see docstring) ----------------------------------------
    sset = None
    try:
        sl = dom.state_list
        au.state_list = list(sl)
        sset = set(au.state_list)
        if len(sset) != len(au.state_list):
            au.add('state_list:duplicates', {'n': len(au.state_list), 'distinct': len(sset)})
    except CA as e:
        au.add('exception:state_list', _exc_detail('state_list', e), e, 'state_list')

    # ---- the rest of the state list (walls, cells cut off from the start, ...) ---------------
    if au.state_list is not None:
        for s in au.state_list:
            if s not in au.reached:
                au.n_extra_states += 1
                if au.n_extra_states <= max_states:
                    visit(s, False)

    # ---- membership of every initial state / successor in the state list -----------------------
    if sset is not None:
        for s, p in init:
            if p > 0 and s not in sset:
                au.add('initial_dist:outside_state_list', {'state': repr(s), 'p': p}, key=s)
                au.outside_pos.append((None, None, s))
        for (s, a), pos in au.edges.items():
            for ns, p in pos.items():
                if ns not in sset:
                    au.add('successor_outside_state_list',
                           {'state': repr(s), 'action': repr(a), 'successor': repr(ns), 'p': p,
                            'source_absorbing': s in au.absorbing}, key=ns, where=(s, a))
                    au.outside_pos.append((s, a, ns))
        for (s, a, ns) in zeros:
            if ns not in sset:
                au.outside_zero.append((s, a, ns))

    # ---- tabular arrays ----------------------------------------------------------------------
    import numpy as np
    arrays = {}
    names = ['state_list', 'action_list', 'transition_matrix', 'reward_matrix', 'initial_state_vec',
             'absorbing_state_vec']
    if pomdp:
        names += ['observation_list', 'observation_matrix']
    for nm in names:
        try:
            arrays[nm] = getattr(dom, nm)
        except CA as e:
            key = e.args[0] if isinstance(e, KeyError) and e.args else None
            au.add('exception:array:' + nm, _exc_detail(nm, e), e, 'array:' + nm, key=key)
    if all(n in arrays for n in names):
        sl, al = list(arrays['state_list']), list(arrays['action_list'])
        tf, rf = arrays['transition_matrix'], arrays['reward_matrix']
        nS, nA = len(sl), len(al)
        if tuple(tf.shape) != (nS, nA, nS) or tuple(rf.shape) != (nS, nA, nS):
            au.add('array:shape', {'tf': tf.shape, 'rf': rf.shape, 'nS': nS, 'nA': nA})
        else:
            if not np.isfinite(tf).all() or (tf < 0).any():
                au.add('array:transition_matrix_negative_or_nonfinite', {})
            if not np.isfinite(rf).all():
                au.add('array:reward_matrix_nonfinite', {})
            sidx = {s: i for i, s in enumerate(sl)}
            aidx = {a: i for i, a in enumerate(al)}
            for (s, a), pos in au.edges.items():
                if s not in sidx or a not in aidx:
                    continue
                row = tf[sidx[s], aidx[a]]
                if abs(float(row.sum()) - 1.0) > TOL:
                    au.add('array:transition_row_not_normalised',
                           {'state': repr(s), 'action': repr(a), 'sum': float(row.sum())})
                    break
                bad = False
                for ns, p in pos.items():
                    if ns in sidx and abs(float(row[sidx[ns]]) - p) > TOL:
                        au.add('array:transition_entry_differs_from_next_state_dist',
                               {'state': repr(s), 'action': repr(a), 'successor': repr(ns), 'matrix': float(row[sidx[ns]]), 'dist': p})
                        bad = True
                        break
                if bad:
                    break
            s0 = np.asarray(arrays['initial_state_vec'], dtype=float)
            if s0.shape != (nS,) or abs(float(s0.sum()) - 1.0) > TOL or (s0 < 0).any():
                au.add('array:initial_state_vec', {'vec': s0})
            av = np.asarray(arrays['absorbing_state_vec'])
            if av.shape != (nS,):
                au.add('array:absorbing_state_vec_shape', {'shape': av.shape})
            if pomdp:
                om = arrays['observation_matrix']
                nO = len(arrays['observation_list'])
                if tuple(om.shape) != (nA, nS, nO):
                    au.add('array:observation_matrix_shape', {'shape': om.shape, 'expected': (nA, nS, nO)})
                elif not np.isfinite(om).all() or (om < 0).any() or np.abs(om.sum(-1) - 1.0).max() > TOL:
                    au.add('array:observation_matrix_rows_not_normalised', {'row_sums': om.sum(-1)})

    # ---- planning ----------------------------------------------------------------------------
    if plan:
        from msdm.algorithms import ValueIteration
        try:
            vi = ValueIteration() if vi_cap is None else ValueIteration(max_iterations=vi_cap)
            res = vi.plan_on(dom)
            au.planned = True
            au.vi_converged = bool(res.converged)
        except CA as e:
            key = e.args[0] if isinstance(e, KeyError) and e.args else None
            au.add('exception:plan:ValueIteration', _exc_detail('ValueIteration().plan_on', e), e, 'plan:vi', key=key)
        if pomdp and float(dom.discount_rate) < 1:
            from msdm.algorithms.qmdp import QMDP
            try:
                QMDP(mdp_solver=ValueIteration()).plan_on(dom)
            except CA as e:
                key = e.args[0] if isinstance(e, KeyError) and e.args else None
                au.add('exception:plan:QMDP', _exc_detail('QMDP(ValueIteration()).plan_on', e), e, 'plan:qmdp', key=key)
    return au


# ------------------------------------------------------------------------------------------------
# plain grid world: independent geometry and the semantic clauses of the statement
# ------------------------------------------------------------------------------------------------
class GWGeometry:
    """Geometry of a plain grid world read from the layout rows by this harness: the top line of
    the layout is the row with the largest y, x grows to the right; one symbol per cell; '.' is
    the featureless default."""

    def __init__(self, rows, wall='#', start='s', absorbing=('g',), default='.'):
        self.h = len(rows)
        self.w = len(rows[0])
        self.sym = {}
        for ri, row in enumerate(rows):
            for x, c in enumerate(row):
                self.sym[(x, self.h - 1 - ri)] = c
        self.walls = {c for c, f in self.sym.items() if f in wall}
        self.starts = {c for c, f in self.sym.items() if f in start}
        self.absorbing = {c for c, f in self.sym.items() if f in absorbing}
        self.default = default

    def inside(self, c):
        return c in self.sym


GW_TERMINAL = (-1, -1)


def gw_cell(s):
    """cell of a GridWorld state (a mapping with keys x, y)"""
    return (s['x'], s['y'])


def gw_expected(geo, c, dxy, p_success):
    """Exact successor distribution the statement prescribes for cell c and commanded move dxy."""
    if c == GW_TERMINAL or c in geo.absorbing:
        return {GW_TERMINAL: 1.0}
    t = (c[0] + dxy[0], c[1] + dxy[1])
    if dxy == (0, 0) or not geo.inside(t) or t in geo.walls:
        return {c: 1.0}
    out = {}
    if p_success > 0:
        out[t] = p_success
    if p_success < 1:
        out[c] = 1.0 - p_success
    return out


# ------------------------------------------------------------------------------------------------
# position models used ONLY for the class predicates of recorded findings
# ------------------------------------------------------------------------------------------------
WIND = {'>': (1, 0), '<': (-1, 0), '^': (0, 1), 'v': (0, -1)}
WINDY_ACTIONS = [(0, -1), (0, 1), (1, 0), (-1, 0)]


class WindyModel:
    """Where a windy-grid agent can be: wind (with probability wp) displaces by one cell, the
    action adds its offset, a wall at the landing cell sends the agent back to where it started
    the step, and a coordinate that leaves the grid is reset to its value at the start of the
    step.  Branches carry their probability so that impossible (probability-0) branches can be
    told apart from possible ones."""

    def __init__(self, rows, wp):
        self.h, self.w = len(rows), len(rows[0])
        self.sym = {(x, self.h - 1 - ri): c for ri, row in enumerate(rows) for x, c in enumerate(row)}
        self.wp = wp

    def branches(self, c, a):
        f = self.sym.get(c)
        pre = [(c, 1.0)]
        if f in WIND:
            d = WIND[f]
            pre = [(c, 1.0 - self.wp), ((c[0] + d[0], c[1] + d[1]), self.wp)]
        out = []
        for m, p in pre:
            t = (m[0] + a[0], m[1] + a[1])
            if self.sym.get(t) == '#':
                out.append((c, p))
                continue
            nx, ny = t
            if nx < 0 or nx > self.w - 1:
                nx = c[0]
            if ny < 0 or ny > self.h - 1:
                ny = c[1]
            out.append(((nx, ny), p))
        return out

    def reachable(self):
        """cells reachable from the '@' cells with positive probability, goals ('$') not expanded"""
        seen = {c for c, f in self.sym.items() if f == '@'}
        stack = list(seen)
        while stack:
            c = stack.pop()
            if self.sym.get(c) == '$':
                continue
            for a in WINDY_ACTIONS:
                for t, p in self.branches(c, a):
                    if p > 0 and t not in seen:
                        seen.add(t)
                        stack.append(t)
        return seen

    def goal_exits(self, R):
        """cells outside R that a reachable goal cell leads to with positive probability"""
        return {t for c in R if self.sym.get(c) == '$' for a in WINDY_ACTIONS
                for t, p in self.branches(c, a) if p > 0 and t not in R}

    def zero_exits(self, R):
        """cells outside R that appear only as probability-0 branches of cells in R"""
        return {t for c in R for a in WINDY_ACTIONS for t, p in self.branches(c, a) if p == 0 and t not in R}


HOH_MOVES = [(0, -1), (0, 1), (-1, 0), (1, 0), (0, 0)]


class HoHModel:
    """Heaven-or-hell positions: rows are numbered from the top (y = 0 is the first line); '#' and
    everything outside the grid block a move; the first 's' in reading order is the start."""

    def __init__(self, rows):
        self.sym = {(x, y): c for y, row in enumerate(rows) for x, c in enumerate(row)}
        self.start = min((c for c, f in self.sym.items() if f == 's'), key=lambda c: (c[1], c[0]))

    def step(self, c, m):
        t = (c[0] + m[0], c[1] + m[1])
        return c if self.sym.get(t, '#') == '#' else t

    def reachable(self):
        seen = {self.start}
        stack = [self.start]
        while stack:
            c = stack.pop()
            if self.sym[c] in 'hg':
                continue
            for m in HOH_MOVES:
                t = self.step(c, m)
                if t not in seen:
                    seen.add(t)
                    stack.append(t)
        return seen

    def goal_exits(self, R):
        return {self.step(c, m) for c in R if self.sym[c] in 'hg' for m in HOH_MOVES} - set(R)
