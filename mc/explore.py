"""E2 -- stateless exploration of every pseudo-random answer.

The algorithms under test obtain randomness only through `random.Random` objects.  A
`ChoiceRandom` turns every draw into a scheduling point of an `Explorer`, which enumerates all
answers by re-executing the body with a longer forced prefix (stateless DFS).

* choices(pop, weights)  -> one point per draw over the positive-weight entries (weights recorded)
* choice(seq)            -> one point over len(seq)
* shuffle(x)             -> one point over the len(x)! permutations
* random()               -> a lazy order value RV: its numeric value is never fixed, every comparison
                            the program makes on it is a binary point kept consistent by a
                            transitively closed partial order.  Arithmetic on an RV is a HarnessError.
* default answer         -> fair round-robin per point signature (k-th visit -> answer k mod n);
                            a *deviation* is any other answer; the explorer completes deviation
                            bound d (None = full branching).

A `ScriptedRandom` answers the same points from a real seeded `random.Random`, which is how real
seeds are replayed against the explored tree (conformance of the substitute generator).
"""
import itertools
import math
import random as _random

from mc.run import HarnessError

_RealRandom = _random.Random


class Truncated(BaseException):
    """An execution exceeded the point horizon (BaseException so library code cannot swallow it)."""


class RV(float):
    """A uniform(0,1) draw that is only ever observed through comparisons."""
    __slots__ = ('ex', 'uid', 'real')

    def __new__(cls, ex, uid, real=None):
        o = super().__new__(cls, 0.5 if real is None else real)
        o.ex = ex
        o.uid = uid
        o.real = real
        return o

    def __lt__(s, o): return s.ex.compare(s, o, 'lt')
    def __gt__(s, o): return s.ex.compare(s, o, 'gt')
    def __le__(s, o): return s.ex.compare(s, o, 'lt')
    def __ge__(s, o): return s.ex.compare(s, o, 'gt')
    def __eq__(s, o): return s is o
    def __ne__(s, o): return s is not o
    def __hash__(s): return hash(('RV', s.uid))

    def _no(self, *a, **k):
        raise HarnessError("arithmetic/conversion on a random() draw is not modelled by the lazy-order abstraction")
    __add__ = __radd__ = __sub__ = __rsub__ = __mul__ = __rmul__ = __truediv__ = __rtruediv__ = _no
    __float__ = __int__ = __round__ = __pow__ = __neg__ = __abs__ = __floordiv__ = __mod__ = _no

    def __repr__(s): return f"RV#{s.uid}"


def _perm_rank_list(k):
    return list(itertools.permutations(range(k)))


class ChoiceRandom(_RealRandom):
    """Drop-in for random.Random whose every answer is an explorer point."""

    def __init__(self, ex, real_seed=None):
        super().__init__(0)
        self.ex = ex
        self._real = _RealRandom(real_seed) if real_seed is not None else None

    # --- draws
    def random(self):
        return self.ex.new_rv(self._real.random() if self._real is not None else None)

    def choices(self, population, weights=None, *, cum_weights=None, k=1):
        if cum_weights is not None:
            raise HarnessError("cum_weights")
        population = list(population)
        weights = [1] * len(population) if weights is None else [w for w in weights]
        if len(weights) != len(population):
            raise ValueError('The number of weights does not match the population')
        out = []
        for _ in range(k):
            idx = [i for i, w in enumerate(weights) if w > 0]
            if not idx:
                raise ValueError('Total of weights must be greater than zero')
            forced = None
            if self._real is not None:
                forced = idx.index(self._real.choices(range(len(population)), weights)[0])
            j = self.ex.point(len(idx), ('choices', tuple(_lab(population[i]) for i in idx)),
                              weights=[float(weights[i]) for i in idx], forced=forced,
                              labels=[population[i] for i in idx])
            out.append(population[idx[j]])
        return out

    def choice(self, seq):
        seq = list(seq)
        if not seq:
            raise IndexError('Cannot choose from an empty sequence')
        forced = self._real.choice(range(len(seq))) if self._real is not None else None
        return seq[self.ex.point(len(seq), ('choice', tuple(_lab(x) for x in seq)), forced=forced, labels=seq)]

    def shuffle(self, x):
        k = len(x)
        if k <= 1:
            if self._real is not None:
                self._real.shuffle(list(x))
            return
        if k > 5:
            raise HarnessError("shuffle of more than 5 elements")
        perms = _perm_rank_list(k)
        forced = None
        if self._real is not None:
            idx = list(range(k))
            self._real.shuffle(idx)
            forced = perms.index(tuple(idx))
        p = perms[self.ex.point(len(perms), ('shuffle', k), forced=forced)]
        items = list(x)
        x[:] = [items[i] for i in p]

    def randint(self, a, b): raise HarnessError("randint is not modelled")
    def randrange(self, *a, **k): raise HarnessError("randrange is not modelled")
    def sample(self, *a, **k): raise HarnessError("sample is not modelled")
    def uniform(self, *a, **k): raise HarnessError("uniform is not modelled")
    def gauss(self, *a, **k): raise HarnessError("gauss is not modelled")
    def getrandbits(self, *a, **k): raise HarnessError("getrandbits is not modelled")
    def seed(self, *a, **k): pass


def _lab(x):
    r = repr(x)
    return r if len(r) < 60 else r[:60]


class Explorer:
    def __init__(self, bound=None, max_points=200, max_execs=None, fair=True):
        self.bound, self.max_points, self.max_execs, self.fair = bound, max_points, max_execs, fair
        self.executions = 0
        self.truncated = 0
        self.transitions = 0
        self.capped = False
        self.leaves = set()
        self._reset([])

    def _reset(self, prefix):
        self.prefix = prefix
        self.trace = []     # (n, dev, sig, chosen, weights)
        self.rvs = []
        self.less = {}
        self.sigcount = {}

    # --- lazy order reasoning for random() draws
    def new_rv(self, real=None):
        rv = RV(self, len(self.rvs), real)
        self.rvs.append(rv)
        self.less[rv.uid] = set()
        return rv

    def _node(self, x):
        if isinstance(x, RV):
            return x.uid
        x = float(x)
        key = ('c', x)
        if key not in self.less:
            self.less[key] = set()
            for k in list(self.less):
                if isinstance(k, tuple) and k != key:
                    if k[1] < x:
                        self._add(k, key)
                    elif k[1] > x:
                        self._add(key, k)
        return key

    def _add(self, a, b):
        below = [k for k in self.less if a in self.less[k]] + [a]
        above = list(self.less[b]) + [b]
        for k in below:
            self.less[k].update(above)

    def compare(self, rv, other, op):
        if isinstance(other, RV) and other is rv:
            return False
        if not isinstance(other, (RV, int, float)):
            raise HarnessError(f"comparison of a random() draw with {type(other)}")
        a = rv.uid
        b = self._node(other)
        known = False
        if not isinstance(other, RV):
            if other <= 0.0:
                lt, known = False, True
            elif other >= 1.0:
                lt, known = True, True
        if not known:
            if b in self.less[a]:
                lt = True
            elif a in self.less[b]:
                lt = False
            else:
                forced = None
                if rv.real is not None:
                    oreal = other.real if isinstance(other, RV) else float(other)
                    forced = 0 if rv.real < oreal else 1
                c = self.point(2, ('cmp', isinstance(other, RV)), forced=forced)
                lt = (c == 0)
                if lt:
                    self._add(a, b)
                else:
                    self._add(b, a)
        return lt if op == 'lt' else (not lt)

    # --- choice points
    def point(self, n, sig, weights=None, forced=None, labels=None):
        i = len(self.trace)
        if i >= self.max_points:
            raise Truncated()
        if self.fair:
            seen = self.sigcount.get(sig, 0)
            self.sigcount[sig] = seen + 1
            default = seen % n
        else:
            default = 0
        if forced is not None:
            c = forced
            dev = (c - default) % n
        else:
            dev = self.prefix[i] if i < len(self.prefix) else 0
            if dev >= n:
                raise HarnessError(f"replay divergence at point {i}: deviation {dev} but only {n} answers ({sig})")
            c = (default + dev) % n
        self.trace.append((n, dev, sig, c, weights, labels))
        return c

    def devs(self):
        return [t[1] for t in self.trace]

    def path_probability(self):
        """Product of branch probabilities of the weighted points of the current trace, and the
        number of unweighted points."""
        p = 1.0
        for n, dev, sig, c, w, _ in self.trace:
            if w is not None:
                p *= w[c] / math.fsum(w)
        return p

    def run_one(self, prefix, body, real_seed=None):
        self._reset(list(prefix))
        rng = ChoiceRandom(self, real_seed)
        try:
            return body(rng), False
        except Truncated:
            return None, True

    def explore(self, body, on_exec):
        """on_exec(out, explorer, truncated) is called after every execution."""
        stack = [[]]
        while stack:
            if self.max_execs is not None and self.executions >= self.max_execs:
                self.capped = True
                break
            prefix = stack.pop()
            out, trunc = self.run_one(prefix, body)
            self.executions += 1
            if trunc:
                self.truncated += 1
            L = len(prefix)
            self.transitions += len(self.trace) - L + (1 if L else 0)
            if not trunc:
                self.leaves.add(tuple(t[3] for t in self.trace))
            on_exec(out, self, trunc)
            devs = sum(1 for t in self.trace[:L] if t[1] != 0)
            if self.bound is None or devs + 1 <= self.bound:
                tr = self.trace
                for i in range(len(tr) - 1, L - 1, -1):
                    for alt in range(1, tr[i][0]):
                        stack.append([t[1] for t in tr[:i]] + [alt])
        return self

    @property
    def states(self):
        return self.transitions + 1


class patched_random:
    """Context manager: while active, `random.Random(seed)` (however the library spells it through
    the `random` module) returns a ChoiceRandom bound to the explorer."""

    def __init__(self, ex, real_seed_from_arg=False):
        self.ex = ex
        self.real = real_seed_from_arg
        self.created = 0

    def __enter__(self):
        outer = self

        def factory(seed=None):
            outer.created += 1
            return ChoiceRandom(outer.ex, real_seed=seed if outer.real else None)
        self._orig = _random.Random
        _random.Random = factory
        return self

    def __exit__(self, *a):
        _random.Random = self._orig
        return False
