"""E3 -- generic explicit-state breadth-first search over a transition function supplied by the caller.

The caller owns the semantics: `step(state, action, depth)` applies the REAL transition function of
the code under test to one (state, action) pair, evaluates its edge invariants on the result and
returns the successor states that carry positive probability.  This module only does the worklist
bookkeeping: a `seen` table keyed by a canonical form (JSON with sorted keys for dictionary states),
breadth-first layers (so `depth` is the length of a shortest path from a root), the recorded
successor graph (for reachability post-processing / shortest counterexample paths) and the counts
of states / edges / maximal depth.

Nothing here samples: every action returned by `actions(state)` is applied to every state that is
reached, until the frontier is empty (or `max_states` is exceeded, which is reported as
`truncated=True` and must be surfaced by the caller as a non-exhaustive run)."""
import json


def canon(state):
    """Canonical, hashable form of a (nested) dict / list / scalar state."""
    return json.dumps(state, sort_keys=True)


class Graph:
    """Explored part of the transition graph (mergeable over several roots of the same system)."""
    __slots__ = ('depth', 'state', 'succ', 'parent', 'n_edges', 'max_depth', 'truncated')

    def __init__(self):
        self.depth = {}      # key -> BFS depth relative to the root that first reached it
        self.state = {}      # key -> one concrete state object with that key
        self.succ = {}       # key -> set of successor keys (positive probability, any action); only expanded states
        self.parent = {}     # key -> (parent key, action label) of the first discovery (None for roots)
        self.n_edges = 0     # number of (state, action) pairs the transition function was applied to
        self.max_depth = 0
        self.truncated = False

    def __len__(self):
        return len(self.depth)

    def path_to(self, key):
        """Shortest discovery path [(action label, state key), ...] from a root to `key`."""
        out = []
        while self.parent.get(key) is not None:
            pk, a = self.parent[key]
            out.append((a, key))
            key = pk
        out.append((None, key))
        return out[::-1]

    def reach(self, root_key):
        """Keys reachable from root_key inside the recorded graph (root included)."""
        seen = {root_key}
        stack = [root_key]
        while stack:
            k = stack.pop()
            for j in self.succ.get(k, ()):
                if j not in seen:
                    seen.add(j)
                    stack.append(j)
        return seen


def bfs(roots, actions, step, key=canon, graph=None, on_state=None, max_states=None):
    """Breadth-first search.

    roots            iterable of initial states
    actions(s)       -> iterable of (label, action); every one of them is applied
    step(s, a, d)    -> iterable of successor states (caller checks its invariants in here);
                        d is the BFS depth of s
    key(s)           canonical hashable key (default: JSON, sorted keys)
    graph            a Graph from a previous call on the same system: states already in it are
                     not expanded again (used to explore from several initial states while paying
                     for every (state, action) pair once)
    on_state(s, d)   called once per newly discovered state
    Returns the Graph (the same object if one was passed in).
    """
    g = graph if graph is not None else Graph()
    frontier = []
    for s in roots:
        k = key(s)
        if k in g.depth:
            continue
        g.depth[k] = 0
        g.state[k] = s
        g.parent[k] = None
        if on_state is not None:
            on_state(s, 0)
        frontier.append((k, s))
    d = 0
    while frontier:
        nxt = []
        for k, s in frontier:
            succ = g.succ.setdefault(k, set())
            for label, a in actions(s):
                g.n_edges += 1
                for ns in step(s, a, d):
                    nk = key(ns)
                    succ.add(nk)
                    if nk not in g.depth:
                        if max_states is not None and len(g.depth) >= max_states:
                            g.truncated = True
                            continue
                        g.depth[nk] = d + 1
                        g.state[nk] = ns
                        g.parent[nk] = (k, label)
                        if d + 1 > g.max_depth:
                            g.max_depth = d + 1
                        if on_state is not None:
                            on_state(ns, d + 1)
                        nxt.append((nk, ns))
        frontier = nxt
        d += 1
    return g
