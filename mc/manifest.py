"""Regenerates /verif/MANIFEST.json from the property modules present in props/ (python -m mc.manifest)."""
import importlib
import json
import os
import sys

VERIF = os.path.dirname(os.path.dirname(os.path.abspath(__file__)))
ALL = [f'C{i:02d}' for i in range(1, 21)]
# checks that are finished (silent on the unchanged tree, shown to detect seeded changes)
READY = ['C01', 'C02', 'C03', 'C04', 'C05', 'C06', 'C07', 'C08', 'C09', 'C10', 'C11', 'C12', 'C13', 'C14', 'C15', 'C16', 'C17', 'C18', 'C19', 'C20']

ENGINES = [
    {'name': 'E1-enum', 'path': 'mc/build.py, mc/refmdp.py, mc/run.py',
     'kind_free_text': 'bounded-exhaustive enumeration of finite input alphabets against exact Fraction reference models'},
    {'name': 'E2-explore', 'path': 'mc/explore.py',
     'kind_free_text': 'stateless explicit exploration of every pseudo-random answer (ChoiceRandom + lazy order values), fair default + deviation bound, replay-checked'},
    {'name': 'E3-bfs', 'path': 'mc/bfs.py',
     'kind_free_text': "explicit-state BFS over the library's own transition functions with invariants on every state and edge"},
]


def main():
    sys.path[:0] = [VERIF, '/repo']
    checks, na = [], []
    serves = {e['name']: [] for e in ENGINES}
    for pid in ALL:
        path = os.path.join(VERIF, 'props', pid + '.py')
        if not os.path.exists(path) or pid not in READY:
            na.append({'property_id': pid, 'reason': 'check not implemented yet in this session (planned, see DESIGN.md section 3)'})
            continue
        mod = importlib.import_module('props.' + pid)
        meta = getattr(mod, 'MANIFEST', {})
        for e in meta.get('engines', ['E1-enum']):
            serves[e].append(pid)
        checks.append({
            'property_id': pid,
            'quick_cmd': f'./check {pid} --tier quick',
            'thorough_cmd': f'./check {pid} --tier thorough',
            'evidence_file': f'/verif/evidence/{pid}.json',
            'replay_cmd_template': f'./check {pid} --replay {{path}}',
            'engine': '+'.join(meta.get('engines', ['E1-enum'])),
            'level_claimed': {
                'category': 'model_checking',
                'text': meta.get('level_text', 'bounded-exhaustive exploration of the real implementation against an exact reference'),
                'design_ref': meta.get('design_ref', 'DESIGN.md section 3 / ' + pid),
            },
            'level_note': meta.get('level_note', '; '.join(mod.ASSUMPTIONS)),
            'technique': meta.get('technique', 'bounded-exhaustive input enumeration on the real code vs exact rational reference model'),
        })
    for e in ENGINES:
        e['serves_properties'] = serves[e['name']]
    man = {
        'version': 1,
        'setup_cmd': 'cd /verif && /venv/bin/python -c "import sys; sys.path[:0]=[\'/verif\',\'/repo\']; import msdm, mc.run, mc.refmdp, mc.build; print(\'ok\')"',
        'hooks': {
            'guard': 'MSDM_VERIF',
            'enable': 'no source hooks are needed: the harness substitutes random.Random / rng= arguments, event listeners and module-level function wrappers from outside; MSDM_VERIF is reserved and unused by /repo',
            'baseline_off_cmd': 'cd /repo && env -u MSDM_VERIF /venv/bin/python -m pytest -ra -q -p no:cacheprovider --timeout=900 --continue-on-collection-errors',
            'source_commits': [],
            'add_only': True,
        },
        'engines': ENGINES,
        'checks': checks,
        'not_applicable': na,
        'notes': 'All checks run the real msdm code from /repo (PYTHONPATH=/repo). Known findings live in /verif/known_findings.json.',
    }
    with open(os.path.join(VERIF, 'MANIFEST.json'), 'w') as f:
        json.dump(man, f, indent=1)
    print('checks:', [c['property_id'] for c in checks], 'n/a:', [x['property_id'] for x in na])


if __name__ == '__main__':
    main()
