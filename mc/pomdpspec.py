"""Exact POMDP specs: an MDP item (mc.refmdp) plus an observation kernel, the real msdm object built
from it, and exact (Fraction) Bayes-filter / expectimax references.

    ('pomdp', mdp_item, O)      O[a_index][ns] = tuple of (obs, Fraction)   (a_index over sorted action names)
All states offer the same actions (the belief MDP offers the whole action list)."""
from fractions import Fraction as F
from itertools import product

from mc.refmdp import Spec
from mc import build

from msdm.core.pomdp import TabularPOMDP
from msdm.core.distributions import DictDistribution

OBS_LABELINGS = {
    'xy': lambda o: o,
    'int': lambda o: {'x': 1, 'y': 0, 'z': 2}[o],          # sorted order differs from x<y<z
    'mix': lambda o: {'x': 'x', 'y': (0,), 'z': None}[o],   # unsortable
}


class PSpec(Spec):
    def __init__(self, item):
        tag, mdp_item, O = item
        assert tag == 'pomdp'
        super().__init__(mdp_item)
        self.pitem = item
        self.anames = sorted({a for s in range(self.n) for a in self.acts[s]})
        self.O = {}
        self.Oall = {}
        for ai, a in enumerate(self.anames):
            for ns in range(self.n):
                self.Oall[a, ns] = [(o, F(p)) for o, p in O[ai][ns]]
                self.O[a, ns] = {o: F(p) for o, p in O[ai][ns] if p != 0}
        self.obs = sorted({o for d in self.O.values() for o in d})

    # exact filter --------------------------------------------------------
    def predict_state(self, b, a):
        out = {}
        for s, ps in b.items():
            if ps == 0:
                continue
            for ns, p in self.T[s][a].items():
                out[ns] = out.get(ns, 0) + ps * p
        return out

    def predictive_obs(self, b, a):
        out = {}
        for ns, p in self.predict_state(b, a).items():
            for o, po in self.O[a, ns].items():
                out[o] = out.get(o, 0) + p * po
        return out

    def posterior(self, b, a, o):
        un = {ns: p * self.O[a, ns].get(o, 0) for ns, p in self.predict_state(b, a).items()}
        tot = sum(un.values())
        if tot == 0:
            return None
        return {ns: p / tot for ns, p in un.items() if p > 0}

    def belief_reward(self, b, a):
        return sum((pb * self.sa_reward(s, a) for s, pb in b.items() if pb != 0), F(0))


class SpecPOMDP(build.SpecMDP, TabularPOMDP):
    def __init__(self, pspec, slabel='int', alabel='ab', olabel='xy', explicit_lists=False):
        build.SpecMDP.__init__(self, pspec, slabel, alabel, explicit_lists)
        self.ol = OBS_LABELINGS[olabel]
        self.o_of = {self.ol(o): o for o in 'xyz'}

    obs_kind = 'dict'

    def observation_dist(self, a, ns):
        pairs = [(self.ol(o), p) for o, p in self.spec.Oall[self.a_of[a], self.s_of[ns]]]
        if self.obs_kind == 'special':
            # single-outcome / equal-probability kernels through the other distribution classes
            from msdm.core.distributions import DeterministicDistribution, UniformDistribution
            if len(pairs) == 1 and pairs[0][1] == 1:
                return DeterministicDistribution(pairs[0][0])
            if len({p for _, p in pairs}) == 1 and sum(p for _, p in pairs) == 1:
                return UniformDistribution(tuple(o for o, _ in pairs))
        return DictDistribution({o: float(p) for o, p in pairs})


# ------------------------------------------------------------------ alphabets
def obs_kernels(n, level=1):
    """Per-action kernels: tuple over next states of observation distributions."""
    one, h, q, tq, z = F(1), F(1, 2), F(1, 4), F(3, 4), F(0)
    x, y = (('x', one),), (('y', one),)
    if n == 2:
        ks = [
            (x, y),                                     # state revealing
            (x, x),                                     # uninformative
            ((('x', tq), ('y', q)), (('x', q), ('y', tq))),   # noisy
            (x, (('x', h), ('y', h))),                  # half informative
            (y, x),                                     # swapped labels
            ((('x', one), ('y', z)), (('y', one), ('x', z))),  # revealing with explicit zero entries
            ((('x', one - F(1, 10 ** 9)), ('y', F(1, 10 ** 9))), (('x', one - F(3, 10 ** 9)), ('y', F(3, 10 ** 9)))),  # rare observation
            # three observations, x and z equally informative (same posterior), y different, and more observations than states
            ((('x', q), ('y', h), ('z', q)), (('x', F(3, 8)), ('y', q), ('z', F(3, 8)))),
        ]
        if level >= 2:
            ks += [((('x', h), ('y', h)), (('x', h), ('y', h))), ((('x', q), ('y', tq)), y),
                   ((('x', one), ('z', z)), (('x', one), ('z', z)))]     # zero entry for an observation that never occurs
        return ks
    zed = (('z', one),)
    ks = [
        (x, y, zed),
        (x, x, x),
        (x, y, y),
        ((('x', tq), ('y', q)), (('y', h), ('z', h)), zed),
        ((('x', one), ('y', z)), (('x', h), ('y', h)), (('y', one), ('x', z))),
    ]
    return ks


def enum_pomdps(n, nactions, dist_level, reward_patterns, absorbing_sets, inits, gammas, kernel_level=1, kernel_pairs='all'):
    names = 'ab'[:nactions]
    dists = build.dist_menu(n, dist_level)
    ks = obs_kernels(n, kernel_level)
    if nactions == 1:
        kcombos = [(k,) for k in ks]
    elif kernel_pairs == 'all':
        kcombos = list(product(ks, repeat=2))
    else:
        kcombos = [(k, ks[(i + 1) % len(ks)]) for i, k in enumerate(ks)] + [(k, k) for k in ks]
    for gamma in gammas:
        for tcombo in product(dists, repeat=n * nactions):
            for rp in reward_patterns:
                T = tuple(tuple((names[a], tcombo[s * nactions + a], rp(s, a)) for a in range(nactions)) for s in range(n))
                for ab in absorbing_sets:
                    for init in inits:
                        m = ('mdp', n, T, ab, init, gamma)
                        for kc in kcombos:
                            yield ('pomdp', m, kc)


REWARD_PATTERNS = {
    'minus1': lambda s, a: F(-1),
    'state': lambda s, a: F(-1) if s == 0 else F(1),
    'action': lambda s, a: F(0) if a == 0 else F(-2),
    'mixed': lambda s, a: F([1, -1, 0, 2][(2 * s + a) % 4]),
}


def lattice_beliefs(n, denom=4):
    out = []
    for w in product(range(denom + 1), repeat=n):
        if sum(w) == denom:
            out.append({s: F(x, denom) for s, x in enumerate(w)})
    return out
