"""Common runner: shards a property's finite enumeration over a pool of long-lived worker
processes, aggregates coverage counters, classifies violations against known_findings.json,
writes replay files and the evidence file, and sets the exit status.

A property module (props/Cxx.py) provides

    ID                       'C01'
    RULE                     how cases are enumerated / what makes one non-trivial
    ASSUMPTIONS              list[str]
    bounds(tier)             dict describing the bounds of the tier (goes to evidence)
    items(tier, seed)        deterministic generator of picklable work items (the finite space)
    check(item, tier)        -> Res   (runs in a worker; explores everything behind that item)
    replay(record)           -> Res   (re-run one recorded violation without the pool)
"""
import hashlib
import json
import multiprocessing as mp
import os
import sys
import time
import traceback

VERIF = os.path.dirname(os.path.dirname(os.path.abspath(__file__)))


class HarnessError(Exception):
    """The harness (not the code under test) met something it does not model."""


def jsonable(x, depth=0):
    from fractions import Fraction
    if depth > 12:
        return repr(x)
    if isinstance(x, (str, int, bool)) or x is None:
        return x
    if isinstance(x, float):
        return x if x == x and abs(x) != float('inf') else repr(x)
    if isinstance(x, Fraction):
        return str(x)
    if isinstance(x, dict):
        return {(k if isinstance(k, str) else repr(k)): jsonable(v, depth + 1) for k, v in x.items()}
    if isinstance(x, (list, tuple, set, frozenset)):
        return [jsonable(v, depth + 1) for v in x]
    try:
        import numpy as np
        if isinstance(x, np.generic):
            return jsonable(x.item(), depth + 1)
        if isinstance(x, np.ndarray):
            return jsonable(x.tolist(), depth + 1)
    except Exception:
        pass
    return repr(x)


def digest(obj):
    return int.from_bytes(hashlib.blake2b(repr(obj).encode(), digest_size=8).digest(), 'big')


class Res:
    """Result of checking one work item (mergeable)."""
    __slots__ = ('counters', 'violations', 'samples', 'nontrivial', 'outcomes', 'notes')

    def __init__(self):
        self.counters = {}
        self.violations = []
        self.samples = []
        self.nontrivial = set()
        self.outcomes = set()
        self.notes = {}

    def count(self, name, n=1):
        self.counters[name] = self.counters.get(name, 0) + n

    def maxi(self, name, v):
        k = 'max:' + name
        if v > self.counters.get(k, float('-inf')):
            self.counters[k] = v

    def violation(self, kind, detail, item, finding=None, extra=None):
        """kind: short machine-readable label; finding: id of a known_findings.json entry the
        check attributes this violation to (it only counts as known if the file lists it)."""
        if finding is not None and finding in KNOWN:
            self.count('known:' + finding)
            if sum(1 for v in self.violations if v['finding'] == finding) >= 2:
                return
        else:
            finding = None if finding not in KNOWN else finding
            self.count('violations_new')
            if sum(1 for v in self.violations if v['finding'] is None) >= 20:
                return
        self.violations.append({'kind': kind, 'detail': jsonable(detail), 'item': item,
                                'finding': finding, 'extra': jsonable(extra)})

    def sample(self, obj):
        if len(self.samples) < 3:
            self.samples.append(jsonable(obj))

    def nontriv(self, key):
        self.nontrivial.add(digest(key))

    def outcome(self, key):
        if len(self.outcomes) < 100000:
            self.outcomes.add(digest(key))

    def merge(self, other):
        for k, v in other.counters.items():
            if k.startswith('max:'):
                if v > self.counters.get(k, float('-inf')):
                    self.counters[k] = v
            else:
                self.counters[k] = self.counters.get(k, 0) + v
        for v in other.violations:
            same = sum(1 for w in self.violations if w['finding'] == v['finding'])
            if same < (40 if v['finding'] is None else 3):
                self.violations.append(v)
        for s in other.samples:
            if len(self.samples) < 6:
                self.samples.append(s)
        self.nontrivial |= other.nontrivial
        self.outcomes |= other.outcomes
        for k, v in other.notes.items():
            self.notes.setdefault(k, v)


_MOD = None
_TIER = None
KNOWN = {}


def _init_worker(modname, tier):
    global _MOD, _TIER
    import importlib
    _MOD = importlib.import_module(modname)
    _TIER = tier
    KNOWN.clear()
    KNOWN.update(load_known(_MOD.ID))


def _work(chunk):
    out = Res()
    for item in chunk:
        try:
            r = _MOD.check(item, _TIER)
        except (HarnessError, Exception) as e:   # anything escaping a check is a harness problem, never a verdict
            r = Res()
            r.count('harness_errors')
            r.notes['harness_error'] = {'item': jsonable(item), 'error': repr(e),
                                        'tb': traceback.format_exc()[-1500:]}
        out.merge(r)
        out.count('items')
    return out


def _chunks(it, size):
    buf = []
    for x in it:
        buf.append(x)
        if len(buf) >= size:
            yield buf
            buf = []
    if buf:
        yield buf


def load_known(prop_id):
    path = os.path.join(VERIF, 'known_findings.json')
    if not os.path.exists(path):
        return {}
    with open(path) as f:
        data = json.load(f)
    return {e['id']: e for e in data.get('findings', [])
            if e.get('property') == prop_id and e.get('status') == 'known'}


def run(mod, tier, seed, workers=None, replay_path=None):
    t0 = time.time()
    pid = mod.ID
    budget = float(os.environ.get('VERIF_BUDGET_S', getattr(mod, 'BUDGET', {}).get(tier, 3600)))
    total = Res()
    truncated_by_budget = False
    KNOWN.clear()
    KNOWN.update(load_known(pid))
    if replay_path:
        with open(replay_path) as f:
            rec = json.load(f)
        total = mod.replay(rec)
        total.count('items')
    else:
        workers = workers or int(os.environ.get('VERIF_WORKERS', min(16, os.cpu_count() or 1)))
        chunk = getattr(mod, 'CHUNK', {}).get(tier, 16)
        gen = _chunks(mod.items(tier, seed), chunk)
        if workers <= 1:
            _init_worker(mod.__name__, tier)
            for c in gen:
                total.merge(_work(c))
                if time.time() - t0 > budget:
                    truncated_by_budget = True
                    break
        else:
            ctx = mp.get_context('fork')
            with ctx.Pool(workers, initializer=_init_worker, initargs=(mod.__name__, tier)) as pool:
                for r in pool.imap_unordered(_work, gen):
                    total.merge(r)
                    if time.time() - t0 > budget:
                        truncated_by_budget = True
                        pool.terminate()
                        break
    wall = time.time() - t0

    known = load_known(pid)
    known_hits = {}
    new = []
    for v in total.violations:
        f = v.get('finding')
        if f and f in known:
            known_hits.setdefault(f, []).append(v)
        else:
            new.append(v)
    n_new = int(total.counters.get('violations_new', 0))

    os.makedirs(os.path.join(VERIF, 'replays'), exist_ok=True)
    lines = []
    for fid, vs in sorted(known_hits.items()):
        lines.append(f"KNOWN-FINDING: property={pid} {fid}: {known[fid]['summary']} "
                     f"(reproduced on {total.counters.get('known:' + fid, len(vs))} enumerated inputs)")
    # a listed finding that no longer reproduces is reported as a note (not an alarm)
    for fid in known:
        if fid not in known_hits and not replay_path:
            lines.append(f"NOTE: property={pid} listed finding {fid} did not reproduce in tier {tier}")
    nwritten = 0
    for i, v in enumerate(new):
        if nwritten >= 10:
            break
        path = os.path.join(VERIF, 'replays', f"{pid}_{tier}_{i}.json")
        with open(path, 'w') as f:
            json.dump({'property': pid, 'tier': tier, 'seed': seed, 'kind': v['kind'], 'detail': v['detail'],
                       'item': jsonable_item(v['item']), 'extra': v.get('extra')}, f, indent=1)
        lines.append(f"VIOLATION property={pid} replay={path}")
        lines.append(f"  kind={v['kind']} detail={json.dumps(v['detail'])[:600]}")
        nwritten += 1

    herr = total.counters.get('harness_errors', 0)
    c = total.counters
    states = int(c.get('states', c.get('items', 0)))
    transitions = int(c.get('transitions', c.get('evaluations', 0)))
    cov = {
        'states': states,
        'transitions': transitions,
        # every explored execution / state runs the implementation itself (there is no separate model), so all of them count;
        # 'traces_validated' (in counters) is the number of REAL-seed runs replayed through the substitute generator
        'traces_validated_against_impl': int(c.get('executions', c.get('evaluations', c.get('items', 0)))),
        'samples': total.samples or [{'note': 'no sample recorded'}],
        'evaluations': int(c.get('evaluations', c.get('executions', c.get('items', 0)))),
        'distinct_nontrivial': len(total.nontrivial),
        'distinct_outcomes': len(total.outcomes),
        'rule': mod.RULE,
        'exhaustive': (not truncated_by_budget) and herr == 0 and not replay_path
                      and int(c.get('truncated_executions', 0)) == 0 and int(c.get('capped_instances', 0)) == 0
                      and bool(getattr(mod, 'EXHAUSTIVE', True)),
        'bounds': mod.bounds(tier),
        'truncated_by_time_budget': truncated_by_budget,
        'counters': {k: (int(v) if float(v).is_integer() else v) for k, v in sorted(c.items())},
        'known_findings_reproduced': {k: int(c.get('known:' + k, len(v))) for k, v in known_hits.items()},
        'explanation': getattr(mod, 'EXPLANATION', ''),
    }
    ev = {
        'property_id': pid, 'tier': tier, 'seed': int(seed), 'level': 'model_checking',
        'coverage': cov, 'assumptions': list(mod.ASSUMPTIONS), 'wall_s': round(wall, 2),
        'violations': n_new,
    }
    if not replay_path and os.environ.get('VERIF_NO_EVIDENCE', '') in ('', '0'):
        os.makedirs(os.path.join(VERIF, 'evidence'), exist_ok=True)
        with open(os.path.join(VERIF, 'evidence', f'{pid}.json'), 'w') as f:
            json.dump(ev, f, indent=1, sort_keys=True)
    for ln in lines:
        print(ln)
    print(f"[{pid} {tier} seed={seed}] items={c.get('items', 0)} states={states} transitions={transitions} "
          f"nontrivial={len(total.nontrivial)} outcomes={len(total.outcomes)} violations={n_new} "
          f"known={sum(int(c.get('known:' + k, 0)) for k in known_hits)} harness_errors={herr} wall={wall:.1f}s"
          + (" TRUNCATED-BY-BUDGET" if truncated_by_budget else ""))
    if herr:
        print("HARNESS-ERROR:", json.dumps(total.notes.get('harness_error'))[:3000])
        return 2
    return 1 if (new or n_new) else 0


def jsonable_item(item):
    """Items are picklable python values; store a repr that `replay` can eval back."""
    return {'repr': repr(item)}


def item_from_record(rec):
    from fractions import Fraction  # noqa: F401  (used by eval)
    return eval(rec['item']['repr'], {'Fraction': Fraction, 'inf': float('inf'), 'nan': float('nan')})
