"""Turns exact MDP items (mc.refmdp) into real msdm objects, under a choice of labelling and
representation options, and enumerates the finite MDP alphabets used by several properties."""
from fractions import Fraction as F
from itertools import product, combinations

from msdm.core.mdp import TabularMarkovDecisionProcess
from msdm.core.distributions import DictDistribution, DeterministicDistribution, UniformDistribution

try:
    from frozendict import frozendict
except Exception:  # pragma: no cover
    frozendict = None

# --------------------------------------------------------------------------- labelings
STATE_LABELINGS = {
    'int': lambda i: i,
    'rev': lambda i: 9 - i,                        # sorted order is the reverse of spec order
    'str': lambda i: 'zyxwvutsrqpo'[i],                # sortable, reversed
    'tup': lambda i: [(1, 0), (0, 1), (0, 0), (1, 1), (2, 0), (0, 2), (2, 1), (1, 2), (3, 0), (0, 3), (3, 1), (1, 3)][i],
    'mix': lambda i: [0, 'b', (1, 2), None, 'e', (3,), 2.5, frozenset({7}), 'i', (9,), 10.5, 'l'][i],    # not sortable
    'fd': (lambda i: frozendict({'x': i // 2, 'y': i % 2})) if frozendict else (lambda i: ('fd', i)),
    'strfwd': lambda i: 'state%d' % i,
    'falsy': lambda i: [0, '', (), False, 0.5, 'x', 7, 8][i] if i < 3 else ('s', i),   # falsy state objects (False == 0 avoided)
}
ACTION_LABELINGS = {
    'ab': lambda a: a,
    'rev': lambda a: {'a': 'z', 'b': 'y', 'c': 'x'}[a],
    'mix': lambda a: {'a': 1, 'b': 'b', 'c': (0,)}[a],   # not sortable
    'fd': (lambda a: frozendict({'d': a})) if frozendict else (lambda a: ('fd', a)),
    'falsy': lambda a: {'a': 0, 'b': '', 'c': ()}[a],    # falsy action objects (integer 0, empty string, empty tuple)
}


class SpecMDP(TabularMarkovDecisionProcess):
    """A TabularMarkovDecisionProcess defined by a Spec through the functional interface only."""

    def __init__(self, spec, slabel='int', alabel='ab', explicit_lists=False, dist_kind='dict'):
        self.spec = spec
        self.discount_rate = float(spec.gamma)
        self.sl = STATE_LABELINGS[slabel]
        self.al = ACTION_LABELINGS[alabel]
        self.s_of = {self.sl(i): i for i in range(spec.n)}
        self.a_of = {self.al(a): a for a in 'abc'}
        self.dist_kind = dist_kind
        if explicit_lists:
            self._state_list = tuple(self.sl(i) for i in range(spec.n))
            acts = []
            for s in range(spec.n):
                for a in spec.acts[s]:
                    if a not in acts:
                        acts.append(a)
            self._action_list = tuple(self.al(a) for a in sorted(acts))

    def _dist(self, pairs):
        pairs = list(pairs)
        if self.dist_kind == 'det' and len(pairs) == 1 and pairs[0][1] == 1:
            return DeterministicDistribution(pairs[0][0])
        if self.dist_kind == 'uniform' and len({p for _, p in pairs}) == 1 and sum(p for _, p in pairs) == 1:
            return UniformDistribution(tuple(e for e, _ in pairs))
        return DictDistribution({e: float(p) for e, p in pairs})

    def next_state_dist(self, s, a):
        i, b = self.s_of[s], self.a_of[a]
        return self._dist((self.sl(ns), p) for ns, p in self.spec.Tall[i][b])

    def reward(self, s, a, ns):
        return float(self.spec.R[self.s_of[s]][self.a_of[a]].get(self.s_of[ns], 0))     # total: unlisted successors pay 0

    def actions(self, s):
        return tuple(self.al(a) for a in self.spec.acts[self.s_of[s]])

    def initial_state_dist(self):
        return self._dist((self.sl(s), p) for s, p in self.spec.init.items())

    def is_absorbing(self, s):
        return self.s_of[s] in self.spec.abs_explicit


# --------------------------------------------------------------------------- alphabets
def dist_menu(n, level):
    """Outcome distributions over states 0..n-1.  level 0: Dirac; 1: + half-half pairs;
    2: + quarter/three-quarter pairs."""
    out = [((t, F(1)),) for t in range(n)]
    if level >= 1:
        out += [((i, F(1, 2)), (j, F(1, 2))) for i, j in combinations(range(n), 2)]
    if level >= 2:
        out += [((i, F(1, 4)), (j, F(3, 4))) for i in range(n) for j in range(n) if i != j]
    return out


def state_options(n, s, action_sets, dists, rewards):
    """All (action, dist, rew) tuples-of-tuples for one state."""
    per_action = [(d, r) for d in dists for r in rewards]
    out = []
    for aset in action_sets:
        for combo in product(per_action, repeat=len(aset)):
            out.append(tuple((a, d, r) for a, (d, r) in zip(aset, combo)))
    return out


def enum_mdps(n, action_sets, dist_level, rewards, absorbing_sets, inits, gammas,
              nonpositive_when_undiscounted=True, per_state_action_sets=None):
    """Cartesian enumeration, simplest first.  Yields MDP items.  per_state_action_sets (optional) gives each
    state its own menu of action sets."""
    dists = dist_menu(n, dist_level)
    for gamma in gammas:
        rs = [r for r in rewards if r <= 0] if (gamma == 1 and nonpositive_when_undiscounted) else rewards
        opts = [state_options(n, s, per_state_action_sets[s] if per_state_action_sets else action_sets, dists, rs) for s in range(n)]
        for T in product(*opts):
            for ab in absorbing_sets:
                for init in inits:
                    yield ('mdp', n, T, ab, init, gamma)


def subsets(n, maxsize=None):
    out = []
    for k in range(0, (maxsize if maxsize is not None else n) + 1):
        out += [tuple(c) for c in combinations(range(n), k)]
    return out


INIT_MENU = {
    1: [((0, F(1)),)],
    2: [((0, F(1)),), ((0, F(1, 2)), (1, F(1, 2))), ((0, F(1, 4)), (1, F(3, 4))), ((1, F(1)),)],
    3: [((0, F(1)),), ((0, F(1, 2)), (2, F(1, 2))), ((1, F(1, 4)), (2, F(3, 4)))],
    4: [((0, F(1)),), ((0, F(1, 2)), (3, F(1, 2)))],
}


def chain_mdps(n, gammas, rewards):
    """A structured (not Cartesian) family for n = 3, 4: state 0..n-2 free-ish, last state a goal;
    each non-goal state has 1-2 actions drawn from a reduced menu of 'forward', 'back', 'stay',
    'split' outcomes.  Used where the full Cartesian product is too large."""
    goal = n - 1
    for gamma in gammas:
        rs = [r for r in rewards if r <= 0] if gamma == 1 else rewards
        per_state = []
        for s in range(n - 1):
            outs = [((min(s + 1, goal), F(1)),), ((max(s - 1, 0), F(1)),), ((s, F(1)),),
                    ((min(s + 1, goal), F(1, 2)), (s, F(1, 2))), ((goal, F(1, 2)), (0, F(1, 2)))]
            outs = list(dict.fromkeys(outs))
            single = [(('a', d, r),) for d in outs for r in rs]
            double = [(('a', d1, r1), ('b', d2, r2)) for (d1, r1), (d2, r2) in
                      combinations([(d, r) for d in outs for r in rs], 2)]
            per_state.append(single + double)
        goal_opt = [(('a', ((goal, F(1)),), F(0)),)]
        for T in product(*per_state, goal_opt):
            yield ('mdp', n, T, (), INIT_MENU[n][0], gamma)


def proper_mdps(n, gammas, rewards_by_gamma, inits, action_sets=(('a',), ('a', 'b')), dist_level=1, goal_opts=None,
                reduce_pairs=False):
    """MDPs whose last state is explicitly absorbing and in which EVERY deterministic policy reaches
    it with probability 1 (filtered exactly).  Used by the trial-based planners and learners."""
    from mc import refmdp
    goal = n - 1
    dists = dist_menu(n, dist_level)
    if goal_opts is None:
        goal_opts = [(('a', ((goal, F(1)),), F(0)),), (('a', ((0, F(1)),), F(-1)),)]
    for gamma in gammas:
        rs = rewards_by_gamma(gamma)
        per = [(d, r) for d in dists for r in rs]
        opts = []
        for s in range(n - 1):
            o = []
            for aset in action_sets:
                if len(aset) == 1:
                    o += [((aset[0], d, r),) for d, r in per]
                else:
                    pairs = list(combinations(per, 2)) if reduce_pairs else list(product(per, repeat=2))
                    o += [((aset[0], d1, r1), (aset[1], d2, r2)) for (d1, r1), (d2, r2) in pairs]
            opts.append(o)
        for T in product(*opts):
            for gopt in goal_opts:
                base = ('mdp', n, T + (gopt,), (goal,), inits[0], gamma)
                if not refmdp.all_proper(refmdp.Spec(base), explicit_only=True):
                    break
                for init in inits:
                    yield ('mdp', n, T + (gopt,), (goal,), init, gamma)


# --------------------------------------------------------------------------- edge-value families
EPS6 = F(1, 10 ** 6)
EPS9 = F(1, 10 ** 9)


def edge_mdps():
    """Small hand-structured families that put *values* at the edges of the alphabet: probabilities next to 0 and 1
    (1e-6, 1e-9), three-outcome distributions, discount 0, long corridors (n = 6, 7).  Simplest first."""
    one = F(1)
    # (1) near-one zero-reward self-loops next to a costly exit: must NOT be treated as absorbing
    for eps in (EPS6, EPS9):
        for g in (F(9, 10), F(1)):
            for r_exit in (F(-5), F(-1)):
                T = ((('a', ((1, one),), F(-1)), ('b', ((2, one),), F(-3))),
                     (('a', ((1, one - eps), (2, eps)), (F(0), r_exit)),),
                     (('a', ((2, one),), F(0)),))
                yield ('mdp', 3, T, (2,), ((0, one),), g)
                T2 = ((('a', ((0, one - eps), (1, eps)), (F(0), r_exit)), ('b', ((0, one - eps), (1, eps)), F(0))),
                      (('a', ((1, one),), F(0)),))
                yield ('mdp', 2, T2, (1,), ((0, one),), g)
            # all rewards out of the sticky state are 0 (only its near-1 self-loop probability keeps it from being absorbing)
            T3 = ((('a', ((1, one),), F(-1)),),
                  (('a', ((1, one - eps), (2, eps)), F(0)), ('b', ((1, one - eps), (2, eps)), F(0))),
                  (('a', ((3, one),), F(-5)),),
                  (('a', ((3, one),), F(0)),))
            yield ('mdp', 4, T3, (3,), ((0, one),), g)
    # (2) tiny branch into a costly state
    for eps in (EPS6, EPS9):
        for g in (F(9, 10), F(1)):
            T = ((('a', ((2, one - eps), (1, eps)), F(-1)), ('b', ((2, one),), F(-2))),
                 (('a', ((1, F(1, 2)), (2, F(1, 2))), F(-4)),),
                 (('a', ((2, one),), F(0)),))
            yield ('mdp', 3, T, (2,), ((0, F(1, 2)), (1, F(1, 2))), g)
    # (3) three-outcome fans
    for g in (F(9, 10), F(1)):
        for costs in ((-1, -2, -3), (-3, -1, -1), (0, -2, -1)):
            for probs in ((F(1, 4), F(1, 4), F(1, 2)), (F(1, 2), F(1, 4), F(1, 4))):
                T = ((('a', ((1, probs[0]), (2, probs[1]), (3, probs[2])), F(-1)), ('b', ((4, one),), F(-6))),
                     (('a', ((4, one),), F(costs[0])),),
                     (('a', ((4, one),), F(costs[1])), ('b', ((1, one),), F(-1))),
                     (('a', ((4, one),), F(costs[2])),),
                     (('a', ((4, one),), F(0)),))
                yield ('mdp', 5, T, (4,), ((0, one),), g)
    # (4) discount 0 (myopic) -- a legal discount outside (0,1]; only used by properties that do not restrict it
    for r0, r1 in ((1, 2), (-1, 0), (2, 1)):
        T = ((('a', ((1, one),), F(r0)), ('b', ((0, F(1, 2)), (1, F(1, 2))), F(r1))),
             (('a', ((1, one),), F(10)), ('b', ((0, one),), F(0))))
        yield ('mdp', 2, T, (), ((0, one),), F(0))
    # (6) very large costs (values far below the -708 that log(tiny) would give a masked action)
    for g in (F(9, 10), F(1)):
        T = ((('a', ((1, one),), F(-500)), ('b', ((0, one),), F(-1))),
             (('a', ((2, one),), F(-1000)),),        # the state that lacks action b is worth less than -708
             (('a', ((2, one),), F(0)),))
        yield ('mdp', 3, T, (2,), ((0, one),), g)
    # (7) probabilities that are not dyadic fractions (1/3, 2/3; 1/5, 7/10, 1/10: float sums of such rows are not exactly 1)
    for g in (F(9, 10), F(1)):
        for probs in ((F(1, 5), F(7, 10), F(1, 10)), (F(1, 3), F(1, 3), F(1, 3)), (F(7, 10), F(1, 5), F(1, 10))):
            T = ((('a', ((0, probs[0]), (1, probs[1]), (2, probs[2])), F(-1)), ('b', ((1, F(1, 3)), (2, F(2, 3))), F(-2))),
                 (('a', ((0, F(2, 3)), (2, F(1, 3))), F(-1)), ('b', ((1, probs[0] + probs[1]), (2, probs[2])), (F(-1), F(-3)))),
                 (('a', ((2, one),), F(0)),))
            yield ('mdp', 3, T, (2,), ((0, F(1, 3)), (1, F(2, 3))), g)
    # (5) corridors of 6 and 7 states ending in a negative self-loop / a goal
    for n in (6, 7):
        for g in (F(9, 10), F(1)):
            for end in ('loop', 'goal'):
                rows = []
                for s in range(n - 1):
                    rows.append((('a', ((s + 1, one),), F(-1)),))
                rows.append((('a', ((n - 1, one),), F(-1) if end == 'loop' else F(0)),))
                yield ('mdp', n, tuple(rows), (), ((0, one),), g)


def has_tiny_probability(item):
    return any(p not in (0, 1) and (p < F(1, 100) or p > F(99, 100)) for row in item[2] for _, d, _ in row for _, p in d)


def with_ns_rewards(item):
    """Same MDP, but every stochastic (s, a) pays a reward that depends on the sampled successor:
    the i-th listed outcome pays r - i (keeps rewards non-positive when they were)."""
    tag, n, T, ab, init, g = item
    T2 = []
    for row in T:
        new = []
        for a, dist, rew in row:
            if len(dist) >= 2 and not isinstance(rew, tuple):
                rew = tuple(rew - i for i in range(len(dist)))
            new.append((a, dist, rew))
        T2.append(tuple(new))
    return (tag, n, tuple(T2), ab, init, g)


def thorough_mdps(gammas=(F(1, 2), F(9, 10), F(1)), nonpositive_when_undiscounted=True):
    """The larger MDP family shared by the thorough tiers of C01 / C02 / C06 / C16 (about 6*10^5 specs)."""
    AS = [('a',), ('b',), ('a', 'b')]
    kw = dict(nonpositive_when_undiscounted=nonpositive_when_undiscounted)
    yield from enum_mdps(2, AS, 1, [F(-2), F(-1), F(0), F(1)], [(), (1,)], INIT_MENU[2][:2], list(gammas), **kw)
    yield from enum_mdps(2, AS, 1, [F(-1), F(1)], [(0,), (0, 1)], INIT_MENU[2][2:], [g for g in gammas if g != F(1, 2)], **kw)
    yield from enum_mdps(2, [('a', 'b')], 2, [F(-1), F(0)], [()], [INIT_MENU[2][0]], [g for g in gammas if g != F(1, 2)], **kw)
    g2 = [g for g in gammas if g != F(1, 2)]
    yield from enum_mdps(3, [('a',)], 1, [F(-1), F(0), F(1)], [(), (2,)], [INIT_MENU[3][0]], g2, **kw)
    yield from enum_mdps(3, None, 1, [F(-1), F(0)], [(), (2,)], [INIT_MENU[3][0]], g2,
                         per_state_action_sets=[[('a', 'b')], [('a',)], [('a',)]], **kw)
    yield from enum_mdps(3, None, 1, [F(-1), F(0)], [(2,)], [INIT_MENU[3][1]], g2,
                         per_state_action_sets=[[('a',)], [('a', 'b')], [('b',)]], **kw)
    yield from chain_mdps(3, list(gammas), [F(-1), F(0), F(1)])
    yield from (it for i, it in enumerate(chain_mdps(4, g2, [F(-1), F(0)])) if i % 2 == 0)


def with_zero_entry(spec_item, mode):
    """Append a zero-probability entry to the first outcome distribution of the first state that is in
    the initial support: pointing to an existing state (inside) or to a fresh extra state (outside)."""
    tag, n, T, ab, init, g = spec_item
    if mode == 'none':
        return spec_item, None
    if mode == 'zero_init':
        # a zero-probability entry in the INITIAL distribution, for a fresh state nothing leads to: not part of the support
        T2 = tuple(T) + ((('a', ((n, F(1)),), F(0)),),)
        return ('mdp', n + 1, T2, ab, tuple(init) + ((n, F(0)),), g), n
    s0 = min(s for s, p in init if p > 0)
    if not T[s0]:
        return spec_item, None
    a, dist, rew = T[s0][0]
    if mode == 'inside':
        tgt = next((t for t in range(n) if t not in [ns for ns, _ in dist]), None)
        if tgt is None:
            return spec_item, None
        n2, T2 = n, list(T)
    else:
        tgt = n
        n2 = n + 1
        # 'outside_pit': the never-entered extra state is a costly closed loop (its value is -inf when undiscounted)
        T2 = list(T) + [(('a', ((n, F(1)),), F(-1) if mode == 'outside_pit' else F(0)),)]
    new_dist = dist + ((tgt, F(0)),)
    new_rew = (tuple(rew for _ in dist) if not isinstance(rew, tuple) else rew) + (F(-5),)
    T2[s0] = ((a, new_dist, new_rew),) + tuple(T[s0][1:])
    return ('mdp', n2, tuple(T2), ab, init, g), tgt
