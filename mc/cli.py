"""CLI: python -m mc.cli C01 [--tier quick|thorough] [--replay FILE] [--workers N]"""
import argparse
import importlib
import os
import sys


def main():
    ap = argparse.ArgumentParser()
    ap.add_argument('prop')
    ap.add_argument('--tier', default=os.environ.get('VERIF_TIER') or 'quick', choices=['quick', 'thorough'])
    ap.add_argument('--replay', default=None)
    ap.add_argument('--workers', type=int, default=None)
    a = ap.parse_args()
    try:
        seed = int(os.environ.get('VERIF_SEED', '0') or 0)
    except ValueError:
        seed = 0
    import msdm  # noqa: F401  (imported in the parent so forked workers share it)
    want = os.environ.get('VERIF_REPO', '/repo')
    if not os.path.abspath(msdm.__file__).startswith(os.path.abspath(want) + os.sep):
        print(f'HARNESS-ERROR: msdm imported from {msdm.__file__}, expected under {want}')
        sys.exit(2)
    mod = importlib.import_module('props.' + a.prop)
    from mc import run
    rc = run.run(mod, a.tier, seed, workers=a.workers, replay_path=a.replay)
    sys.stdout.flush()
    sys.exit(rc)


if __name__ == '__main__':
    main()
