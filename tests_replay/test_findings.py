"""Plain unit tests (no explorer, no harness) that replay the recorded findings against the real msdm in /repo.

* test_fixed_*  : the failing input of a defect repaired by a `fix:` commit -- must PASS on the repaired tree
                  (and fails again if the defect returns).
* test_known_*  : the witness of a known finding -- asserts the defective behaviour that is recorded in
                  /verif/known_findings.json, so the test documents it and will FAIL (= tell us) when msdm changes.

Run:  PYTHONPATH=/repo /venv/bin/python -m pytest -q -p no:cacheprovider /verif/tests_replay
"""
import random
import warnings

import numpy as np
import pytest

from msdm.core.distributions import DictDistribution, DeterministicDistribution
from msdm.core.mdp import TabularMarkovDecisionProcess, MarkovDecisionProcess, QuickTabularMDP

warnings.simplefilter('ignore')


class Dict2MDP(TabularMarkovDecisionProcess):
    """T[s][a] = {ns: p}; R[(s, a)] or R[(s, a, ns)]."""

    def __init__(self, T, R, init, absorbing=(), gamma=1.0, lists=None):
        self.T, self.R, self.init, self.abs = T, R, init, set(absorbing)
        self.discount_rate = gamma
        if lists:
            self._state_list, self._action_list = lists

    def initial_state_dist(self): return DictDistribution(self.init)
    def actions(self, s): return tuple(self.T[s].keys())
    def next_state_dist(self, s, a): return DictDistribution(self.T[s][a])
    def reward(self, s, a, ns): return self.R.get((s, a, ns), self.R.get((s, a), 0.0))
    def is_absorbing(self, s): return s in self.abs


# ------------------------------------------------------------------------------------------------ fixed
def test_fixed_F1_policy_iteration_runs_under_numpy2():
    from msdm.algorithms import PolicyIteration
    m = Dict2MDP({'s': {'a': {'g': 1.0}}, 'g': {'a': {'g': 1.0}}}, {('s', 'a'): -1.0}, {'s': 1.0}, absorbing=['g'], gamma=0.9)
    assert PolicyIteration().plan_on(m).state_value['s'] == pytest.approx(-1.0)


def test_fixed_F10_zero_probability_entry_outside_state_list():
    m = Dict2MDP({'s': {'a': {'g': 1.0, 'ghost': 0.0}}, 'g': {'a': {'g': 1.0}}, 'ghost': {'a': {'ghost': 1.0}}},
                 {('s', 'a'): -1.0}, {'s': 1.0}, absorbing=['g'])
    assert m.transition_matrix.shape == (2, 1, 2) and m.reward_matrix.shape == (2, 1, 2)


def test_fixed_F8_F15_lrtdp_absorbing_values_and_fallback_policy():
    from msdm.algorithms.lrtdp import LRTDP
    m = Dict2MDP({'s': {'a': {'g': 1.0}}, 'g': {'a': {'g': 1.0}}}, {('s', 'a'): -1.0}, {'s': 0.5, 'g': 0.5}, absorbing=['g'])
    for seed in range(6):
        res = LRTDP(heuristic=lambda s: 7.0 if s == 'g' else 0.0, seed=seed).plan_on(m)
        assert res.V['g'] == 0 and res.initial_value == pytest.approx(-0.5)


def test_fixed_F2_search_accepts_single_entry_dict_distributions():
    from msdm.algorithms import AStarSearch, BreadthFirstSearch

    class M(MarkovDecisionProcess):
        discount_rate = 1.0
        def initial_state_dist(self): return DictDistribution({0: 1.0})
        def next_state_dist(self, s, a): return DictDistribution({s + 1: 1.0})
        def actions(self, s): return ('a',)
        def reward(self, s, a, ns): return -1.0
        def is_absorbing(self, s): return s == 2
    assert AStarSearch().plan_on(M()).path == [0, 1, 2]
    assert BreadthFirstSearch().plan_on(M()).path == [0, 1, 2]


def test_fixed_F9_F12_td_learners_absorbing_start_and_unvisited_policy():
    from msdm.algorithms import SARSA, QLearning
    m = Dict2MDP({'s': {'a': {'g': 1.0}, 'b': {'g': 1.0}}, 'g': {'a': {'g': 1.0}, 'b': {'g': 1.0}}, 'u': {'a': {'g': 1.0}, 'b': {'g': 1.0}}},
                 {('s', 'a'): -1.0, ('s', 'b'): -1.0}, {'g': 0.5, 's': 0.5}, absorbing=['g'], gamma=0.9)
    for seed in range(8):
        res = SARSA(episodes=1, initial_q=1.0, seed=seed).train_on(m)
        assert all(v == 0 for v in dict(res.q_values).get('g', {'a': 0}).values())
    res = QLearning(episodes=1, seed=0, initial_q=lambda s, a: 1.0 if a == 'a' else 0.0).train_on(m)
    assert dict(res.policy.action_dist('u').items()) == {'a': 0.5, 'b': 0.5}      # never visited: uniform, not greedy on initial_q


def test_fixed_F13_observation_matrix_with_zero_probability_observation():
    from msdm.core.pomdp import TabularPOMDP

    class P(Dict2MDP, TabularPOMDP):
        def observation_dist(self, a, ns): return DictDistribution({'x': 1.0, 'never': 0.0})
    p = P({'s': {'a': {'s': 1.0}}}, {('s', 'a'): 1.0}, {'s': 1.0}, gamma=0.9)
    assert p.observation_matrix.shape == (1, 1, 1)


def test_fixed_F3_pomdp_rollout_uses_the_supplied_generator():
    from msdm.domains.tiger import Tiger
    from msdm.algorithms.qmdp import QMDP
    pol = QMDP().plan_on(Tiger(coherence=0.85, discount_rate=0.9)).policy
    state = random.getstate()
    t1 = pol.run_on(Tiger(coherence=0.85, discount_rate=0.9), max_steps=3, rng=random.Random(4))
    random.random()
    t2 = pol.run_on(Tiger(coherence=0.85, discount_rate=0.9), max_steps=3, rng=random.Random(4))
    assert [s.state for s in t1] == [s.state for s in t2]
    random.setstate(state)


def test_fixed_F6_augment_keeps_the_discount_rate():
    from msdm.core.semimdp.option import augment
    m = Dict2MDP({'s': {'a': {'s': 1.0}}}, {('s', 'a'): 1.0}, {'s': 1.0}, gamma=0.5)
    assert augment(m, is_absorbing=lambda s: False).discount_rate == 0.5


def test_fixed_F7_controller_node_update_conditions_on_the_action():
    from msdm.core.pomdp.finitestatecontroller import StochasticFiniteStateController
    from msdm.domains.tiger import Tiger
    p = Tiger(coherence=0.85, discount_rate=0.9)
    nA, nS, nO = p.observation_matrix.shape
    act = np.zeros((2, nA)); act[0, 0] = 1; act[1, 1] = 1          # node 0 always action 0, node 1 always action 1
    eta = np.zeros((2, nA, nO, 2)); eta[0, :, :, 0] = 1; eta[1, :, :, 1] = 1   # nodes never change
    c = StochasticFiniteStateController(p, act, eta, np.array([0.5, 0.5]))
    nag = c.next_agentstate(c.initial_agentstate(), p.action_list[0], p.observation_list[0])
    assert np.allclose(nag, [1.0, 0.0])                            # having emitted action 0 the controller must be in node 0


def test_fixed_F4_seed_zero_is_a_seed():
    from msdm.algorithms.fscboundedpolicyiteration import FSCBoundedPolicyIteration
    assert FSCBoundedPolicyIteration(controller_state_count=1, seed=0).seed == 0


def test_fixed_F5_obj_seed_does_not_use_the_salted_hash():
    from msdm.core.distributions.utils import obj_seed
    import subprocess, sys
    outs = {subprocess.run([sys.executable, '-c', "from msdm.core.distributions.utils import obj_seed; print(obj_seed(('state', 'opt', 1)))"],
                           capture_output=True, text=True, env={'PYTHONHASHSEED': str(h), 'PYTHONPATH': '/repo', 'PATH': '/usr/bin:/bin'}).stdout
            for h in (0, 1, 2)}
    assert len(outs) == 1 and str(obj_seed(('state', 'opt', 1))) in outs.pop()


def test_fixed_F16_F18_multichain_pi_badly_scaled_discounted_systems():
    from msdm.algorithms.multichainpolicyiteration import MultichainPolicyIteration
    T = {i: {'a': {i: 1.0}} for i in range(4)}
    m = Dict2MDP(T, {(i, 'a'): 1.0 for i in range(4)}, {0: 1.0}, gamma=0.9, lists=((0, 1, 2, 3), ('a',)))
    assert np.allclose(np.array(MultichainPolicyIteration().plan_on(m).state_value), 10.0)
    m2 = Dict2MDP({0: {'a': {0: 1.0}}, 1: {'a': {0: 1.0}, 'b': {1: 0.5, 0: 0.5}}}, {(0, 'a'): -1.0, (1, 'a'): -1.0, (1, 'b'): -1.0},
                  {0: 0.5, 1: 0.5}, gamma=0.995)
    assert not np.isnan(np.array(MultichainPolicyIteration().plan_on(m2).policy)).any()


def test_fixed_F17_factor_table_mixture_with_other_key_order():
    from msdm.core.distributions import DiscreteFactorTable as Pr
    pA = Pr([{'a': 0}, {'a': 1}], probs=[.9, .1]); pB = Pr([{'b': 0}, {'b': 1}], probs=[.5, .5])
    mix = (pA & pB) | (pB & pA)
    assert sum(mix.probs) == pytest.approx(1.0)


def test_fixed_F11_windy_grid_world_default_feature_rewards():
    from msdm.domains.gridmdp.windygridworld import WindyGridWorld
    from msdm.algorithms import ValueIteration
    assert ValueIteration().plan_on(WindyGridWorld("@.$")).converged


def test_fixed_F14_laostar_builds_its_system_in_a_hash_independent_order():
    import subprocess, sys
    code = ("from msdm.algorithms.laostar import LAOStar\n"
            "from msdm.core.mdp import TabularMarkovDecisionProcess\n"
            "from msdm.core.distributions import DictDistribution\n"
            "T={'s0':{'a':{'s1':.5,'s2':.5},'b':{'s3':.25,'s0':.75}},'s1':{'a':{'s3':.5,'s2':.5},'b':{'s0':.5,'s3':.5}},"
            "'s2':{'a':{'s3':.5,'s1':.5},'b':{'s3':1.}},'s3':{'a':{'s3':1.},'b':{'s3':1.}}}\n"
            "R={('s0','a'):-1,('s0','b'):-1,('s1','a'):-2,('s1','b'):-1,('s2','a'):-1,('s2','b'):-3,('s3','a'):0,('s3','b'):0}\n"
            "class M(TabularMarkovDecisionProcess):\n"
            "    discount_rate=0.9\n"
            "    def initial_state_dist(self): return DictDistribution({'s0':1.})\n"
            "    def actions(self,s): return ('a','b')\n"
            "    def next_state_dist(self,s,a): return DictDistribution(T[s][a])\n"
            "    def reward(self,s,a,ns): return R[(s,a)]\n"
            "    def is_absorbing(self,s): return s=='s3'\n"
            "r=LAOStar(heuristic=lambda s:0.0, seed=1).plan_on(M())\n"
            "print(sorted((k,repr(float(v))) for k,v in r.state_value_map.items()))\n")
    outs = {subprocess.run([sys.executable, '-W', 'ignore', '-c', code], capture_output=True, text=True,
                           env={'PYTHONHASHSEED': str(h), 'PYTHONPATH': '/repo', 'PATH': '/usr/bin:/bin'}).stdout for h in range(4)}
    assert len(outs) == 1 and 's0' in outs.pop()


# ------------------------------------------------------------------------------------------------ known
def test_known_K1_trap_states_are_valued_zero_while_iterating():
    from msdm.algorithms import ValueIteration
    m = Dict2MDP({'s0': {'a': {'g': 1.0}, 'b': {'g': 0.5, 'trap': 0.5}}, 'g': {'a': {'g': 1.0}}, 'trap': {'a': {'trap': 1.0}}},
                 {('s0', 'a'): -1.0, ('s0', 'b'): 0.0, ('trap', 'a'): -1.0}, {'s0': 1.0}, absorbing=['g'])
    res = ValueIteration().plan_on(m)
    # true Q*(s0, b) = -inf (half the time the agent is trapped paying -1 for ever); msdm reports 0 and picks b
    assert res.state_value['s0'] == 0 and res.policy['s0']['b'] == 1.0


def test_known_K2_policy_iteration_stalls_with_a_zero_reward_cycle():
    from msdm.algorithms import PolicyIteration, ValueIteration
    m = Dict2MDP({'g': {'a': {'g': 1.0}}, 's': {'a': {'g': 1.0}, 'b': {'s': 1.0}}}, {('s', 'a'): -1.0, ('s', 'b'): 0.0}, {'s': 1.0})
    assert ValueIteration().plan_on(m).state_value['s'] == 0          # optimal: stay for ever at no cost
    assert PolicyIteration().plan_on(m).state_value['s'] == -1        # policy iteration stalls at the uniform policy


def test_known_K4_absorbing_state_with_successor_outside_inferred_state_list():
    m = Dict2MDP({'s': {'a': {'door': 1.0}}, 'door': {'a': {'beyond': 1.0}}, 'beyond': {'a': {'beyond': 1.0}}},
                 {('s', 'a'): -1.0}, {'s': 1.0}, absorbing=['door'])
    with pytest.raises(KeyError):
        m.transition_matrix


def test_known_K3_controller_evaluation_never_ends_the_episode():
    import torch
    from msdm.core.pomdp import TabularPOMDP
    from msdm.algorithms.fscgradientascent import stochastic_fsc_policy_evaluation_exact

    class P(Dict2MDP, TabularPOMDP):
        def observation_dist(self, a, ns): return DictDistribution({'x': 1.0})
    p = P({'s': {'a': {'t': 1.0}}, 't': {'a': {'t': 1.0}}}, {('s', 'a'): 0.0, ('t', 'a'): 1.0}, {'s': 1.0}, absorbing=['t'], gamma=0.9)
    V = stochastic_fsc_policy_evaluation_exact(p, torch.tensor([[1.0]], dtype=torch.float64),
                                               torch.tensor([[[[1.0]]]], dtype=torch.float64)).state_controller_value.numpy()
    ti = list(p.state_list).index('t')
    assert V[0, ti] == pytest.approx(10.0)      # executing the controller from the absorbing state returns 0


def test_known_K6_multichain_pi_tie_tolerance_at_discounts_close_to_one():
    from msdm.algorithms.multichainpolicyiteration import MultichainPolicyIteration
    m = Dict2MDP({0: {'a': {0: 1.0}}, 1: {'a': {0: 1.0}, 'b': {1: 1.0}}}, {(0, 'a'): 1.0, (1, 'a'): -1.0, (1, 'b'): 1.0},
                 {0: 0.5, 1: 0.5}, gamma=0.999)
    res = MultichainPolicyIteration().plan_on(m)
    assert res.converged and res.state_value[1] == pytest.approx(998.0)      # optimal is 1000 (action b for ever)


def test_known_C20_absorbing_exit_outside_inferred_state_list():
    from msdm.domains.gridmdp.windygridworld import WindyGridWorld
    with pytest.raises(KeyError):
        WindyGridWorld("@$.", feature_rewards={}).transition_matrix


def test_fixed_F19_policy_iteration_batch_after_an_integer_discount():
    from msdm.algorithms import PolicyIteration

    def loop(g):
        return Dict2MDP({0: {'a': {0: 1.0}}}, {(0, 'a'): -1.0}, {0: 1.0}, gamma=g)
    b = PolicyIteration().batch_plan_on([loop(0), loop(0.9)])
    assert float(b[1].state_value[0]) == pytest.approx(-10.0)


def test_fixed_F20_augment_of_an_augmented_mdp():
    from msdm.core.semimdp.option import augment
    m = Dict2MDP({0: {'a': {1: 1.0}}, 1: {'a': {1: 1.0}}}, {(0, 'a'): -1.0}, {0: 1.0}, absorbing=[1], gamma=0.9)
    twice = augment(augment(m, reward=lambda s, a, ns: 5.0), is_absorbing=lambda s: False)
    assert twice.reward(0, 'a', 1) == 5.0 and twice.is_absorbing(1) is False and tuple(twice.actions(0)) == ('a',)


def test_fixed_F21_rmax_with_an_unreachable_listed_state():
    from msdm.algorithms.rmax import RMAX
    m = Dict2MDP({'s': {'a': {'g': 1.0}}, 'u': {'a': {'g': 1.0}}, 'g': {'a': {'g': 1.0}}}, {('s', 'a'): -1.0, ('u', 'a'): -1.0},
                 {'s': 1.0}, absorbing=['g'], gamma=0.9, lists=(('s', 'u', 'g'), ('a',)))
    res = RMAX(episodes=2, rmax=0.0, num_transition_samples=1, seed=0).train_on(m)
    assert set(res.q_values) == {'s', 'u', 'g'} and res.q_values['s']['a'] == pytest.approx(-1.0)


def _two_state_pomdp(r, eps=0.01):
    from msdm.core.pomdp import TabularPOMDP

    class P(Dict2MDP, TabularPOMDP):
        def observation_dist(self, a, ns): return DictDistribution({'x': 1.0})
    return P({0: {'a': {0: 1.0}, 'b': {1: 1.0}}, 1: {'a': {1: 1.0}, 'b': {0: 1.0}}}, r, {0: 0.5, 1: 0.5}, gamma=0.9)


def test_fixed_F22_F23_alpha_vector_policy_reads_beliefs_in_every_form():
    from msdm.algorithms.pointbasedvalueiteration import PointBasedValueIteration
    from msdm.core.pomdp.tabularpomdp import Belief
    p = _two_state_pomdp({(0, 'a'): 1.0, (0, 'b'): 0.0, (1, 'a'): -1.0, (1, 'b'): 0.0})
    pol = PointBasedValueIteration(min_belief_expansions=2, max_belief_expansions=4).plan_on(p).policy
    sl = tuple(p.state_list)
    want = [pol.action_value(Belief(sl, (0.9, 0.1)), a) for a in p.action_list]
    assert [pol.action_value(Belief(sl[::-1], (0.1, 0.9)), a) for a in p.action_list] == pytest.approx(want)
    assert [pol.action_value(np.array([0.9, 0.1]), a) for a in p.action_list] == pytest.approx(want)


def test_fixed_F24_F25_pbvi_horizon_for_constant_rewards_and_large_thresholds():
    from msdm.algorithms.pointbasedvalueiteration import PointBasedValueIteration
    const = _two_state_pomdp({(s, a): -1.0 for s in (0, 1) for a in 'ab'})
    v = PointBasedValueIteration(min_belief_expansions=1, max_belief_expansions=3).plan_on(const).policy.value(DictDistribution({0: .5, 1: .5}))
    assert -10.0 <= v <= -9.0
    p = _two_state_pomdp({(0, 'a'): 1.0, (0, 'b'): 0.0, (1, 'a'): -1.0, (1, 'b'): 0.0})
    PointBasedValueIteration(min_belief_expansions=1, max_belief_expansions=3, value_convergence_epsilon=10.0).plan_on(p)


def test_fixed_F26_value_iteration_policy_at_trap_states_with_partial_action_sets():
    from msdm.algorithms import ValueIteration
    m = Dict2MDP({0: {'a': {1: 1.0}, 'c': {2: 1.0}}, 1: {'a': {1: 1.0}}, 2: {'a': {2: 1.0}, 'b': {2: 1.0}}},
                 {(0, 'a'): -1.0, (0, 'c'): -2.0, (2, 'a'): -1.0, (2, 'b'): -1.0}, {0: 1.0}, absorbing=[1])
    pol = ValueIteration().plan_on(m).policy
    assert {a: p for a, p in pol[2].items() if p > 0} == {'a': 0.5, 'b': 0.5}


def test_fixed_F27_zero_probability_entry_in_the_initial_distribution():
    from msdm.algorithms import ValueIteration, PolicyIteration
    m = Dict2MDP({'s': {'a': {'g': 1.0}}, 'g': {'a': {'g': 1.0}}, 'ghost': {'a': {'ghost': 1.0}}}, {('s', 'a'): -1.0},
                 {'s': 1.0, 'ghost': 0.0}, absorbing=['g'], gamma=0.9)
    assert 'ghost' not in m.state_list
    assert ValueIteration().plan_on(m).initial_value == pytest.approx(-1.0)
    assert PolicyIteration().plan_on(m).initial_value == pytest.approx(-1.0)


def test_fixed_F28_undiscounted_evaluation_with_weights_whose_float_sum_is_below_one():
    from msdm.core.mdp import TabularPolicy
    m = Dict2MDP({0: {x: {0: 1.0} for x in 'abc'}, 1: {x: {1: 1.0} for x in 'abc'}}, {(0, x): -1.0 for x in 'abc'}, {0: 1.0},
                 absorbing=[1], lists=((0, 1), ('a', 'b', 'c')))
    pol = TabularPolicy.from_state_action_lists(state_list=m.state_list, action_list=m.action_list,
                                                data=np.array([[0.2, 0.7, 0.1], [0.2, 0.7, 0.1]]))
    assert float(pol.evaluate_on(m).state_value[0]) == float('-inf')


def test_fixed_F30_returns_with_an_integer_discount():
    from msdm.core.mdp.policy import Policy
    assert [float(x) for x in Policy.calc_returns([-1, -2, -3, 0], 1)] == [-6.0, -5.0, -3.0, 0.0]
    assert [float(x) for x in Policy.calc_returns([-1, -2], np.int64(1))] == [-3.0, -2.0]


def test_fixed_F31_entropy_regularised_pi_with_integer_reward_tensor():
    import torch
    from msdm.algorithms.entregpolicyiteration import entropy_regularized_policy_iteration as erpi
    tf = torch.tensor([[[.5, .5], [1., 0.]], [[0., 1.], [.25, .75]]], dtype=torch.float64)
    rf = torch.tensor([[[1, 0], [0, 0]], [[0, 2], [-1, 0]]])
    a = erpi(tf, rf, 0.9, 0.5, 10000).state_values.tolist()
    b = erpi(tf, rf.double(), 0.9, 0.5, 10000).state_values.tolist()
    assert a == pytest.approx(b)


def test_fixed_F32_factor_table_with_one_impossible_row():
    from msdm.core.distributions import DiscreteFactorTable as Pr
    p = Pr([{'a': 1}, {'a': 2}, {'a': 3}], probs=[.5, .5, 0.])
    assert tuple(float(x) for x in (p * .5).probs) == pytest.approx((.5, .5, 0.))
    assert tuple(float(x) for x in Pr([{'a': 1}, {'a': 2}], logits=[0., -np.inf]).probs) == (1.0, 0.0)


def test_fixed_F33_dict_value_iteration_with_zero_probability_successor():
    from msdm.algorithms import ValueIteration
    m = Dict2MDP({'s': {'a': {'g': 1.0, 'pit': 0.0}}, 'g': {'a': {'g': 1.0}}, 'pit': {'a': {'pit': 1.0}}}, {('s', 'a'): -1.0},
                 {'s': 1.0}, absorbing=['g'], gamma=0.9)
    assert ValueIteration(_version='dict').plan_on(m).initial_value == pytest.approx(-1.0)


def _pit_mdp(init, succ, gamma=1.0):
    return Dict2MDP({'start': {'go': succ}, 'goal': {'go': {'goal': 1.0}}, 'pit': {'go': {'pit': 1.0}}},
                    {('start', 'go'): -1.0, ('pit', 'go'): -1.0}, init, absorbing=['goal'], gamma=gamma)


def test_fixed_F34_laostar_ignores_outcomes_listed_with_probability_zero():
    from msdm.algorithms.laostar import LAOStar
    for init, succ in (({'start': 1.0}, {'goal': 1.0, 'pit': 0.0}), ({'start': 1.0, 'pit': 0.0}, {'goal': 1.0})):
        res = LAOStar(heuristic=lambda s: 0, seed=0).plan_on(_pit_mdp(init, succ))
        assert res.converged and res.initial_value == pytest.approx(-1.0)


def test_fixed_F35_lrtdp_ignores_outcomes_listed_with_probability_zero():
    from msdm.algorithms.lrtdp import LRTDP
    for init, succ in (({'start': 1.0}, {'goal': 1.0, 'pit': 0.0}), ({'start': 1.0, 'pit': 0.0}, {'goal': 1.0})):
        res = LRTDP(heuristic=lambda s: 0, seed=0, iterations=500).plan_on(_pit_mdp(init, succ))
        assert res.solved['start'] and res.initial_value == pytest.approx(-1.0)


def test_fixed_F38_softmax_sampler_at_a_small_temperature():
    from msdm.algorithms.tdlearning import epsilon_softmax_sample
    assert epsilon_softmax_sample({'left': -9.0, 'right': -8.0}, 0.0, 0.01, random.Random(0)) == 'right'
    assert epsilon_softmax_sample({'left': 900.0, 'right': 800.0}, 0.0, 0.01, random.Random(0)) == 'left'


def test_fixed_F41_F42_numpy_weights_and_augmented_mixture():
    from msdm.core.mdp import TabularPolicy
    pol = TabularPolicy.from_state_action_lists(state_list=['s0', 's1'], action_list=['a', 'b'], data=np.array([[.25, .75], [1., 0.]]))
    mix = np.float64(.5) * pol['s0'] | np.float64(.5) * pol['s1']
    assert dict(mix) == pytest.approx({'a': .625, 'b': .375})
    d = DictDistribution({'a': .5, 'b': .5})
    d |= DictDistribution({'a': .5})
    assert dict(d) == {'a': 1.0, 'b': .5}


def test_fixed_F36_bayes_filter_ignores_successors_listed_with_probability_zero():
    from msdm.core.pomdp import TabularPOMDP

    class P(Dict2MDP, TabularPOMDP):
        def observation_dist(self, a, ns):
            return DictDistribution({'x': 0.75, 'y': 0.25}) if ns == 0 else DictDistribution({'x': 0.25, 'y': 0.75})     # KeyError-free only on 0, 1
    p = P({0: {'a': {0: .5, 1: .5, 'ghost': 0.0}}, 1: {'a': {1: 1.0}}}, {(0, 'a'): -1.0}, {0: 1.0}, gamma=0.9)

    class Q(P):
        def observation_dist(self, a, ns):
            if ns == 'ghost':
                raise KeyError(ns)
            return P.observation_dist(self, a, ns)
    q = Q({0: {'a': {0: .5, 1: .5, 'ghost': 0.0}}, 1: {'a': {1: 1.0}}}, {(0, 'a'): -1.0}, {0: 1.0}, gamma=0.9)
    post = q.state_estimator(DictDistribution({0: 1.0}), 'a', 'x')
    assert dict(post) == pytest.approx({0: .75, 1: .25})
    assert dict(q.predictive_observation_dist(DictDistribution({0: 1.0}), 'a')) == pytest.approx({'x': .5, 'y': .5})


def test_fixed_F37_alpha_vector_policy_with_uniform_and_point_beliefs():
    from msdm.algorithms.pointbasedvalueiteration import PointBasedValueIteration
    from msdm.core.distributions import DeterministicDistribution
    p = _two_state_pomdp({(0, 'a'): 1.0, (0, 'b'): 0.0, (1, 'a'): -1.0, (1, 'b'): 0.0})
    pol = PointBasedValueIteration(min_belief_expansions=2, max_belief_expansions=4).plan_on(p).policy
    assert pol.value(DictDistribution.uniform([0, 1])) == pytest.approx(pol.value(DictDistribution({0: .5, 1: .5})))
    assert pol.value(DeterministicDistribution(0)) == pytest.approx(pol.value(DictDistribution({0: 1.0})))


def test_fixed_F39_lp_seam_leaves_variables_free():
    import msdm.algorithms.fscboundedpolicyiteration as bpi
    res = bpi.Solvers.scipy_lp(np.array([0.0, -1.0]), np.array([[0.0, 1.0], [-1.0, 0.0]]), np.array([-1.0, 0.0]),
                               np.array([[1.0, 0.0]]), np.array([1.0]))
    assert [float(x) for x in res.solution] == pytest.approx([1.0, -1.0])


def test_fixed_F40_rmax_learner_reused_on_a_bigger_mdp():
    from msdm.algorithms.rmax import RMAX

    def chain(n):
        T = {s: {'go': {min(s + 1, n - 1): 1.0}, 'stay': {s: 1.0}} for s in range(n)}
        R = {(s, a): (0.0 if s == n - 1 else -1.0) for s in range(n) for a in ('go', 'stay')}
        return Dict2MDP(T, R, {0: 1.0}, absorbing=[n - 1], gamma=0.9)
    learner = RMAX(episodes=3, rmax=0.0, num_transition_samples=1, seed=0)
    learner.train_on(chain(3))
    again = learner.train_on(chain(4)).q_values
    fresh = RMAX(episodes=3, rmax=0.0, num_transition_samples=1, seed=0).train_on(chain(4)).q_values
    assert {s: dict(v) for s, v in again.items()} == {s: dict(v) for s, v in fresh.items()}


def test_fixed_F44_undiscounted_multichain_pi_policy_rows():
    from msdm.algorithms.multichainpolicyiteration import MultichainPolicyIteration
    T = {0: {'a': {0: 1.0}, 'b': {2: .9, 3: .1}}, 1: {'a': {0: 1.0}, 'b': {2: 1.0}}, 2: {'a': {0: .1, 1: .9}, 'b': {0: .9, 1: .1}},
         3: {'a': {3: 1.0}, 'b': {3: 1.0}}}
    R = {(0, 'a'): -2.0, (0, 'b'): -1.0, (1, 'a'): -1.0, (1, 'b'): 0.0, (2, 'a'): 0.0, (2, 'b'): -3.0}
    res = MultichainPolicyIteration().plan_on(Dict2MDP(T, R, {0: 1.0}, absorbing=[3], gamma=1.0))
    assert res.converged and not np.isnan(np.array(res.policy)).any()


def test_fixed_F46_marginalising_by_name_leaves_the_rows_alone():
    from msdm.core.distributions import DiscreteFactorTable as Pr
    p = Pr([{'x': 0, 'y': 0}, {'x': 0, 'y': 1}, {'x': 1, 'y': 1}], probs=[.25, .25, .5])
    q = Pr([{'y': 0, 'z': 0}, {'y': 1, 'z': 1}], probs=[.5, .5])
    p['x']
    assert sorted((p & q).support[0]) == ['x', 'y', 'z']


def test_known_K7_real_preferences_below_the_closeness_tolerance():
    from msdm.algorithms import PolicyIteration
    m = Dict2MDP({0: {'a': {0: 1.0}, 'b': {0: 1.0}}, 1: {'a': {1: 1.0}, 'b': {1: 1.0}}}, {(0, 'a'): -100.0, (0, 'b'): -100.05},
                 {0: 1.0}, absorbing=[1], gamma=0.99)
    res = PolicyIteration().plan_on(m)
    assert res.converged and float(res.state_value[0]) == pytest.approx(-10002.475, abs=1e-3) and float(res.policy[0]["b"]) == 0.5      # optimal: -10000, always a
