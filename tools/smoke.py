#!/venv/bin/python
"""Development aid (not a registered check, decides nothing): runs an evenly strided subset of a tier's items through the
check function, so that a new leg / family can be smoke-tested at the thorough tier's sizes without waiting for the full
enumeration.  Prints counters, harness errors and the first violations.

  tools/smoke.py C03 [--tier thorough] [--n 400] [--workers 8] [--last 50]
(the last `--last` items are always included: new legs are usually appended at the end of items())"""
import argparse, importlib, os, sys, collections, multiprocessing as mp, traceback
sys.path.insert(0, '/verif')
sys.path.insert(1, os.environ.get('VERIF_REPO', '/repo'))
os.environ.setdefault('PYTHONHASHSEED', '0')
import warnings
warnings.simplefilter('ignore')

MOD = None
TIER = None


def init(name, tier):
    global MOD, TIER
    from mc import run
    MOD = importlib.import_module('props.' + name)
    TIER = tier
    run.KNOWN.clear()
    run.KNOWN.update(run.load_known(name))


def work(item):
    try:
        r = MOD.check(item, TIER)
        new = [v for v in r.violations if not v.get('finding')]
        return dict(r.counters), [(v['kind'], str(v['detail'])[:300]) for v in new[:2]], None, repr(item)[:200]
    except BaseException as e:
        return {}, [], traceback.format_exc()[-800:], repr(item)[:300]


def main():
    ap = argparse.ArgumentParser()
    ap.add_argument('prop'); ap.add_argument('--tier', default='thorough'); ap.add_argument('--n', type=int, default=400)
    ap.add_argument('--workers', type=int, default=8); ap.add_argument('--last', type=int, default=50); ap.add_argument('--seed', type=int, default=0)
    a = ap.parse_args()
    mod = importlib.import_module('props.' + a.prop)
    tail = collections.deque(maxlen=a.last)
    total = sum(1 for _ in mod.items(a.tier, a.seed))
    stride = max(1, total // a.n)
    chosen = []
    for i, it in enumerate(mod.items(a.tier, a.seed)):
        if i % stride == 0:
            chosen.append(it)
        elif i >= total - a.last:
            chosen.append(it)
    print(f'{a.prop} {a.tier}: {total} items, running {len(chosen)} (stride {stride} + last {a.last})', flush=True)
    cnt = collections.Counter(); nerr = nviol = 0
    with mp.get_context('fork').Pool(a.workers, initializer=init, initargs=(a.prop, a.tier)) as pool:
        for c, viol, err, rep in pool.imap_unordered(work, chosen, chunksize=4):
            cnt.update({k: v for k, v in c.items() if isinstance(v, (int, float))})
            if err:
                nerr += 1
                if nerr <= 3:
                    print('HARNESS-ERROR', rep, err, flush=True)
            for k, d in viol:
                nviol += 1
                if nviol <= 5:
                    print('VIOLATION', k, d, rep, flush=True)
    print({k: v for k, v in cnt.items() if not k.startswith('op:')})
    print(f'harness_errors={nerr} new_violations={nviol}')


if __name__ == '__main__':
    main()
