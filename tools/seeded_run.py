#!/venv/bin/python
"""Detection regression: applies every seeded change under /verif/seeded/ to a scratch worktree of /repo and runs the
check of its property against it (VERIF_REPO); prints one line per change and rewrites seeded/DETECTION.json.

  tools/seeded_run.py [ids...] [--tier quick] [--jobs 2]"""
import argparse, json, os, subprocess, sys, tempfile, shutil, glob
from concurrent.futures import ThreadPoolExecutor

def sh(cmd, **kw):
    return subprocess.run(cmd, shell=True, capture_output=True, text=True, **kw)

def one(name, tier, workers):
    d = f'/verif/seeded/{name}'
    meta = json.load(open(d + '/meta.json'))
    P = meta['property']
    wt = tempfile.mkdtemp(prefix='sd_', dir='/tmp'); os.rmdir(wt)
    try:
        r = sh(f'git -C /repo worktree add --detach {wt} HEAD')
        r = sh(f'git -C {wt} apply {d}/patch.diff')
        if r.returncode != 0:
            return name, {'applies': False, 'error': r.stderr[-300:]}
        r = sh(f'cd /verif && VERIF_REPO={wt} VERIF_NO_EVIDENCE=1 ./check {P} --tier {tier} --workers {workers}', timeout=7200)
        viol = [l for l in r.stdout.splitlines() if l.startswith('VIOLATION')]
        kind = next((l.strip() for l in r.stdout.splitlines() if l.startswith('  kind=')), None)
        return name, {'applies': True, 'check': P, 'exit': r.returncode, 'violation_lines': len(viol), 'first_kind': (kind or '')[:200]}
    finally:
        sh(f'git -C /repo worktree remove --force {wt}'); shutil.rmtree(wt, ignore_errors=True)

def main():
    ap = argparse.ArgumentParser(); ap.add_argument('ids', nargs='*'); ap.add_argument('--tier', default='quick')
    ap.add_argument('--jobs', type=int, default=2); ap.add_argument('--workers', type=int, default=8)
    ap.add_argument('--resume', action='store_true', help='continue from seeded/DETECTION.json.partial')
    a = ap.parse_args()
    names = a.ids or sorted(os.path.basename(os.path.dirname(p)) for p in glob.glob('/verif/seeded/*/meta.json'))
    out = {}
    if os.path.exists('/verif/seeded/DETECTION.json') and a.ids:
        out = json.load(open('/verif/seeded/DETECTION.json'))
    if a.resume and os.path.exists('/verif/seeded/DETECTION.json.partial'):
        out = json.load(open('/verif/seeded/DETECTION.json.partial'))
        names = [n for n in names if n not in out]
    with ThreadPoolExecutor(a.jobs) as ex:
        for name, res in ex.map(lambda n: one(n, a.tier, a.workers), names):
            out[name] = res
            json.dump(out, open('/verif/seeded/DETECTION.json.partial', 'w'), indent=1, sort_keys=True)     # survives an interrupted run
            print(name, res.get('exit'), res.get('violation_lines'), res.get('first_kind', res.get('error', ''))[:120], flush=True)
    json.dump(out, open('/verif/seeded/DETECTION.json', 'w'), indent=1, sort_keys=True)
    missed = [n for n, v in out.items() if v.get('exit') != 1]
    print('detected %d / %d; missed: %s' % (len(out) - len(missed), len(out), missed))

if __name__ == '__main__':
    main()
