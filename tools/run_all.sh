#!/bin/bash
# tools/run_all.sh [seed] [tier] : runs every registered check, prints one line per check
cd /verif
seed=${1:-0}; tier=${2:-quick}
for c in $(/venv/bin/python -c "import json; print(' '.join(x['property_id'] for x in json.load(open('MANIFEST.json'))['checks']))"); do
  s=$(date +%s)
  out=$(VERIF_SEED=$seed VERIF_NO_EVIDENCE=${NOEV-1} ./check $c --tier $tier 2>&1); rc=$?
  echo "$c rc=$rc $(( $(date +%s) - s ))s $(echo "$out" | grep -c '^VIOLATION') violations; $(echo "$out" | tail -1 | cut -c1-160)"
done
