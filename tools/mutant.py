#!/venv/bin/python
"""Confirms a seeded change and runs a check against it.

  tools/mutant.py <PROP> <patch.diff> [--demo demo.py] [--no-tests] [--tier quick] [--checks C01,C06]

Creates a scratch worktree of /repo under /tmp, applies the patch, (1) runs the pinned test-suite command and
compares with the 88 baseline tests of /root/.vp/BASELINE.json, (2) runs the demonstration with and without the
change, (3) runs ./check against the scratch tree (VERIF_REPO), and removes the worktree.  Prints a JSON summary."""
import argparse, json, os, subprocess, sys, tempfile, shutil, xml.etree.ElementTree as ET

def sh(cmd, **kw):
    return subprocess.run(cmd, shell=True, capture_output=True, text=True, **kw)

def main():
    ap = argparse.ArgumentParser()
    ap.add_argument('prop'); ap.add_argument('patch'); ap.add_argument('--demo'); ap.add_argument('--no-tests', action='store_true')
    ap.add_argument('--tier', default='quick'); ap.add_argument('--checks', default=None); ap.add_argument('--workers', default='16')
    a = ap.parse_args()
    wt = tempfile.mkdtemp(prefix='vm_', dir='/tmp'); os.rmdir(wt)
    out = {'prop': a.prop, 'patch': a.patch}
    try:
        r = sh(f'git -C /repo worktree add --detach {wt} HEAD'); assert r.returncode == 0, r.stderr
        r = sh(f'git -C {wt} apply {os.path.abspath(a.patch)}')
        out['applies'] = r.returncode == 0
        if not out['applies']:
            out['apply_error'] = r.stderr[-500:]; print(json.dumps(out, indent=1)); return
        if not a.no_tests:
            base = json.load(open('/root/.vp/BASELINE.json'))
            jx = os.path.join(wt, 'junit.xml')
            sh(f'cd {wt} && /venv/bin/python -m pytest -ra -q -p no:cacheprovider --timeout=900 --continue-on-collection-errors --junitxml={jx}',
               env=dict(os.environ, PYTHONPATH=wt))
            passed = set()
            for tc in ET.parse(jx).getroot().iter('testcase'):
                if not any(ch.tag in ('failure', 'error', 'skipped') for ch in tc):
                    passed.add(tc.get('classname') + '::' + tc.get('name'))
            missing = sorted(set(base['stable_pass']) - passed)
            out['tests_baseline_pass'] = not missing; out['tests_broken'] = missing[:10]
        if a.demo:
            d = os.path.abspath(a.demo)
            r1 = sh(f'cd /tmp && /venv/bin/python {d}', env=dict(os.environ, PYTHONPATH=wt), timeout=900)
            r0 = sh(f'cd /tmp && /venv/bin/python {d}', env=dict(os.environ, PYTHONPATH='/repo'), timeout=900)
            out['demo_fails_with_change'] = r1.returncode != 0; out['demo_passes_without'] = r0.returncode == 0
            out['demo_tail_with'] = (r1.stdout + r1.stderr)[-300:]
        for c in (a.checks.split(',') if a.checks else [a.prop]):
            r = sh(f'cd /verif && VERIF_REPO={wt} VERIF_NO_EVIDENCE=1 ./check {c} --tier {a.tier} --workers {a.workers}', timeout=7200)
            lines = [l for l in r.stdout.splitlines() if l.startswith('VIOLATION') or l.startswith('  kind=')]
            out.setdefault('checks', {})[c] = {'exit': r.returncode, 'violation_lines': len([l for l in lines if l.startswith('VIOLATION')]),
                                               'first': lines[:2], 'summary': r.stdout.splitlines()[-1:] }
    finally:
        sh(f'git -C /repo worktree remove --force {wt}'); shutil.rmtree(wt, ignore_errors=True)
    print(json.dumps(out, indent=1))

if __name__ == '__main__':
    main()
