"""C16 -- multichain policy iteration, when it reports convergence, is gain / value optimal.

E1: small MDP specs (any reward sign when discounted; unichain and multichain, with and without
absorbing states when undiscounted) planned by the real MultichainPolicyIteration and compared with
the exact optimum (discounted values; undiscounted gain = max over all deterministic policies of
the exact stationary average, which replaces the multichain LP by exhaustive computation)."""
import math
import warnings
from fractions import Fraction as F

import numpy as np

from mc.run import Res, item_from_record
from mc import refmdp, build
from mc.refmdp import Spec, NEG_INF

ID = 'C16'
RULE = ("Cartesian enumeration of MDP specs without dead ends (n<=2 full, n=3 reduced/chain families) x rotating labellings; "
        "MultichainPolicyIteration(max_iterations=300).plan_on compared, only when converged, with exact V* (discounted) or the "
        "exact optimal gain (undiscounted); the returned stochastic policy is evaluated exactly. states = specs; transitions = "
        "planner runs compared. Non-trivial = the exact optimum differs between at least two deterministic policies.")
ASSUMPTIONS = [
    "alphabet as C01 plus positive rewards when undiscounted (gain is defined for any sign)",
    "tolerance 1e-6 absolute (minimum-norm float solve)",
    "runs that raise or do not report convergence are counted, not judged (the property is conditional on reported convergence)",
]
BUDGET = {'quick': 900, 'thorough': 7200}
CHUNK = {'quick': 64, 'thorough': 64}
MANIFEST = {'engines': ['E1-enum']}
SLAB = ['int', 'rev', 'str', 'mix', 'tup', 'fd', 'falsy']
ALAB = ['ab', 'rev', 'ab', 'mix', 'rev', 'fd', 'falsy']


def bounds(tier):
    return {'quick': 'n=1,2 Cartesian (dist level 1, rewards {-1,0,1}, gamma {9/10,1}, absorbing {(),(1,)}); n=3 chain family gamma 1',
            'thorough': 'n=1,2 Cartesian (rewards {-2..1}, all absorbing sets, gamma {1/2,9/10,1}); n=3 reduced Cartesian; n=3,4 chain families'}[tier]


def spec_items(tier):
    AS = [('a',), ('b',), ('a', 'b')]
    R3 = [F(-1), F(0), F(1)]
    G = [F(1, 2), F(9, 10), F(1)]
    yield from build.enum_mdps(1, AS, 0, R3, [(), (0,)], build.INIT_MENU[1], G, nonpositive_when_undiscounted=False)
    # fans and corridors only: probabilities of 1e-6 / 1e-9 are below the resolution of the planner's own 1e-10 tie tests
    yield from (it for it in build.edge_mdps() if it[5] > 0 and not any(p not in (0, 1) and (p < F(1, 100) or p > F(99, 100))
                                                                for row in it[2] for _, d, _ in row for _, p in d))
    # huge per-step costs everywhere (no absorbing state: gains around -1000) next to a state that lacks an action
    one = F(1)
    for g in (F(9, 10), F(1)):
        for r0, r1a, r1b, back in ((-1000, -1000, -2000, 1), (-1000, -1500, -2000, 0), (-3000, -800, -900, 1), (-1000, -2000, -1000, 0)):
            T = ((('a', ((1, one),), F(r0)),), (('a', ((back, one),), F(r1a)), ('b', ((1, one),), F(r1b))))
            yield ('mdp', 2, T, (), ((0, one),), g)
            T = ((('a', ((back, one),), F(r1a)), ('b', ((0, one),), F(r1b))), (('b', ((0, one),), F(r0)),))
            yield ('mdp', 2, T, (), ((0, F(1, 2)), (1, F(1, 2))), g)
    # undiscounted, gain exactly 0 everywhere, several sweeps through a slow leak to the goal: the solve returns the zero gain with
    # round-off of ~1e-8 (family around a witness found by reading the policy-assembly code)
    for pr in (F(9, 10), F(3, 4), F(99, 100), F(1, 2)):
        for r01, r20, r21 in ((-1, 0, -3), (-1, -1, -1), (-2, 0, -1)):
            T = ((('a', ((0, one),), F(-2)), ('b', ((2, pr), (3, 1 - pr)), F(r01))),
                 (('a', ((0, one),), F(-1)), ('b', ((2, one),), F(0))),
                 (('a', ((0, 1 - pr), (1, pr)), F(r20)), ('b', ((0, pr), (1, 1 - pr)), F(r21))),
                 (('a', ((3, one),), F(0)), ('b', ((3, one),), F(0))))
            yield ('mdp', 4, T, (3,), ((0, one),), F(1))
    # nearly tied actions: rewards 0.0100 / 0.0105 / 0.0095 give action-value gaps of 5e-4 and less, far above round-off
    yield from build.enum_mdps(2, [('a', 'b')], 1, [F(1, 100), F(21, 2000), F(19, 2000)], [(), (1,)], [build.INIT_MENU[2][1]], [F(9, 10)],
                               nonpositive_when_undiscounted=False)
    # discount close to 1 / many self-loops: the evaluation system is badly scaled (rows of size 1-gamma)
    yield from build.enum_mdps(3, [('a',)], 0, [F(1), F(-1)], [()], [build.INIT_MENU[3][1]], [F(99, 100)], nonpositive_when_undiscounted=False)
    yield from build.enum_mdps(4, [('a',)], 0, [F(1)], [()], [build.INIT_MENU[4][1]], [F(9, 10)], nonpositive_when_undiscounted=False)
    # discounts close to 1 (values ~ 1/(1-gamma)): 0.99 in full, 0.999 reduced (known finding K6 lives there)
    yield from build.enum_mdps(2, [('a',), ('a', 'b')], 1, R3, [(), (1,)], [build.INIT_MENU[2][1]], [F(99, 100)], nonpositive_when_undiscounted=False)
    yield from build.enum_mdps(2, [('a', 'b')], 1, [F(-1), F(1)], [()], [build.INIT_MENU[2][1]], [F(999, 1000)], nonpositive_when_undiscounted=False)
    yield from build.enum_mdps(2, [('a', 'b')], 1, [F(-1), F(1)], [(1,)], [build.INIT_MENU[2][1]], [F(99999, 100000)], nonpositive_when_undiscounted=False)
    if tier == 'quick':
        yield from build.enum_mdps(2, AS, 1, R3, [(), (1,)], [build.INIT_MENU[2][2]], [F(9, 10), F(1)],
                                   nonpositive_when_undiscounted=False)
        yield from build.chain_mdps(3, [F(1)], [F(-1), F(0)])
    else:
        yield from build.thorough_mdps(nonpositive_when_undiscounted=False)


def items(tier, seed):
    for i, it in enumerate(spec_items(tier)):
        yield (it, (i + seed) % len(SLAB))


def check(item, tier):
    from msdm.algorithms.multichainpolicyiteration import MultichainPolicyIteration
    r = Res()
    spec_item, li = item
    spec = Spec(spec_item)
    r.count('states')
    if spec.dead_ends():
        return r
    A = spec.absorbing()
    with warnings.catch_warnings():
        warnings.simplefilter('ignore')
        np.seterr(all='ignore')
        mdp = build.SpecMDP(spec, SLAB[li], ALAB[li], explicit_lists=(li % 2 == 0))
        sl, al = mdp.sl, mdp.al
        try:
            planner = MultichainPolicyIteration(max_iterations=300)
            if li % 2 == 1:
                # planner objects are reusable and an MDP object's discount_rate is a plain attribute: the same planner first
                # plans the same MDP object under another discount, then the discount is set to the one under test
                other = 0.5 if spec.gamma != F(1, 2) else 0.9
                mdp.discount_rate = other
                try:
                    planner.plan_on(mdp)
                except Exception:
                    pass
                mdp.discount_rate = float(spec.gamma)
                r.count('reused_planner_instances')
            res = planner.plan_on(mdp)
        except Exception as e:
            r.count('planner_exceptions')
            r.count('planner_exceptions:' + type(e).__name__ + (':discount<=9/10' if spec.gamma <= F(9, 10) else ''))
            r.outcome(('exc', type(e).__name__))
            return r
        r.count('transitions')
        if not res.converged:
            r.count('not_converged')
            if spec.gamma <= F(9, 10):
                r.count('not_converged:discount<=9/10')
            return r
        present = [s for s in range(spec.n) if sl(s) in set(mdp.state_list)]
        # policy
        pi = {}
        ok = True
        for s in present:
            row = {a: float(res.policy[sl(s)][al(a)]) for a in 'abc' if al(a) in res.policy.action_list}
            if abs(sum(row.values()) - 1) > 1e-9 or any(p < 0 or math.isnan(p) for p in row.values()):
                r.violation('policy_not_distribution', {'s': s, 'row': row}, item)
                ok = False
            elif not {a for a, p in row.items() if p > 0} <= set(spec.acts[s]):
                r.violation('policy_unavailable_action', {'s': s, 'row': row, 'available': spec.acts[s]}, item)
                ok = False
            pi[s] = {a: F(p).limit_denominator(64) for a, p in row.items() if p > 0}
        for s in range(spec.n):
            if s not in pi:
                pi[s] = {spec.acts[s][0]: F(1)}
        if spec.gamma < 1:
            V, Q = refmdp.optimal(spec)
            vals = set()
            # class of known finding K6: discount within 1/500 of 1 AND the returned policy is a fixed point of the planner's own
            # tolerant improvement test (no action's exact one-step advantage under the returned policy exceeds isclose's
            # rtol 1e-5 / atol 1e-8, with a factor 2 for round-off) -- only then is the sub-optimality explained by K6
            k6 = None
            if (1 - spec.gamma) <= F(1, 500) and ok:
                try:
                    Vp, Qp = refmdp.eval_policy(spec, pi)
                    stable = all(float(Qp[s, a]) - float(Vp[s]) <= 2 * (1e-8 + 1e-5 * abs(float(Qp[s, a])))
                                 for s in present if s not in A for a in spec.acts[s])
                    k6 = 'K6' if stable else None
                except Exception:
                    k6 = None
            for s in present:
                got = float(res.state_value[sl(s)])
                if not abs(got - float(V[s])) <= 1e-6 * max(1, abs(float(V[s]))):
                    # K6 explains reported values only if they are themselves a fixed point of the tolerant improvement test: at every
                    # state the value lies within the available actions' one-step look-aheads (of the reported values) and no action's
                    # look-ahead beats it by more than the tolerance -- a wrong table or a scaling slip is not explained by K6
                    r.violation('state_value', {'s': s, 'got': got, 'want': V[s]}, item,
                                finding=k6 if (k6 and tolerant_fixed_point(res, spec, present, A, sl)) else None)
            if ok:
                Vpi, _ = refmdp.eval_policy(spec, pi)
                for s in present:
                    if Vpi[s] != V[s]:
                        r.violation('policy_value_suboptimal', {'s': s, 'Vpi': Vpi[s], 'Vstar': V[s], 'pi': pi}, item, finding=k6)
            if any(len({Q[s, a] for a in spec.acts[s]}) > 1 for s in present if s not in A):
                r.nontriv(spec_item)
        else:
            g = refmdp.optimal_gain(spec)
            for s in present:
                got = float(res.state_gain[sl(s)])
                if not abs(got - float(g[s])) <= 1e-6:
                    r.violation('state_gain', {'s': s, 'got': got, 'want': g[s]}, item)
            if ok:
                gpi = refmdp.gain_of_policy(spec, pi)
                for s in present:
                    if gpi[s] != g[s]:
                        r.violation('policy_gain_suboptimal', {'s': s, 'gain_pi': gpi[s], 'gain_star': g[s], 'pi': pi}, item)
            gains = {tuple(refmdp.gain_of_policy(spec, p)) for p in refmdp.det_policies(spec)}
            if len(gains) > 1:
                r.nontriv(spec_item)
        r.outcome((spec.gamma < 1, res.iterations))
    if hash(repr(item)) % 3000 == 0:
        r.sample({'spec': repr(spec_item), 'gamma': spec.gamma, 'iterations': res.iterations,
                  'state_gain': [float(res.state_gain[sl(s)]) for s in present]})
    return r


def tolerant_fixed_point(res, spec, present, A, sl):
    g = float(spec.gamma)
    vrep = {s: (0.0 if s in A else float(res.state_value[sl(s)])) for s in present}
    for s in present:
        if s in A:
            continue
        qs = []
        for a in spec.acts[s]:
            if any(ns not in vrep for ns in spec.T[s][a]):
                return False
            qs.append(sum(float(p) * (float(spec.R[s][a][ns]) + g * vrep[ns]) for ns, p in spec.T[s][a].items()))
        tol = 2 * (1e-8 + 1e-5 * max(abs(q) for q in qs))
        if not (min(qs) - tol <= vrep[s] <= max(qs) + tol) or max(qs) - vrep[s] > tol:
            return False
    return True


def replay(rec):
    return check(item_from_record(rec), rec.get('tier', 'quick'))
