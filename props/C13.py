"""C13 -- a fixed seed makes every randomised component reproducible and isolated.

Four legs, each exhaustive over a finite menu (component x problem x seed):
 1. same seed => identical canonical result, three times in one process (seeds {0,1,2,VERIF_SEED}; 0 is falsy);
 2. isolation: the runs of leg 1 are made under different prior states of the process-global `random`, numpy
    and torch generators; results must not depend on them and their states must be bit-identical before and
    after each call (every consumed draw advances the state, so 'unchanged' decides 'nothing was drawn');
 3. virtual hash salts (in-process, exhaustive): problems are relabelled with objects whose __hash__ is a
    harness-assigned integer; ALL injective assignments of a hash-value menu to the labels are enumerated, which
    owns the nondeterminism PYTHONHASHSEED stands for (set order, explicit hash() calls);
 4. real processes: string-labelled problems in fresh interpreters with PYTHONHASHSEED in a menu; canonical
    results compared byte for byte (finite cross-check of leg 3).
The replay-determinism of every schedule explored by the E2 checks (C03 C04 C05 C10 C14 C15 C17) is asserted there."""
import itertools
import json
import os
import random
import subprocess
import sys
import warnings
from fractions import Fraction as F

import numpy as np

from mc.run import Res, item_from_record, HarnessError

ID = 'C13'
RULE = ("components {LAO*, LRTDP, A*, BFS, QLearning, SARSA, ExpectedSARSA, DoubleQLearning, RMAX, BPI, gradient ascent, semi-MDP "
        "outcome distribution, ImplicitDistribution, MDP run_on/evaluate_on, POMDP run_on} x problem menu x seeds {0,1,2,VERIF_SEED} "
        "x {3 runs under 3 prior global-generator states; all injective assignments of hash values to the problem's labels; fresh "
        "processes with PYTHONHASHSEED menu}. states = distinct (component, problem, seed, environment) runs; transitions = result "
        "comparisons + generator-state comparisons. Non-trivial = the component's result differs between at least two seeds "
        "(so the seed matters) on that problem.")
ASSUMPTIONS = [
    "only configurations that supply a seed / generator are in scope (seed=None is documented to use the global generator)",
    "2^32 real hash seeds cannot be enumerated: leg 3 (virtual salts) is the exhaustive part, leg 4 a finite cross-check",
    "torch is judged on state-restored + result-independence (gradient ascent draws inside fork_rng and restores the state)",
]
BUDGET = {'quick': 900, 'thorough': 7200}
CHUNK = {'quick': 1, 'thorough': 1}
MANIFEST = {'engines': ['E1-enum'],
            'technique': 'exhaustive enumeration of seeds x prior global-generator states x virtual hash-salt assignments (in-process) x PYTHONHASHSEED processes; byte-wise comparison of canonical results'}

COMPONENTS = ['laostar', 'lrtdp', 'astar', 'astar_tie', 'bfs', 'qlearning', 'sarsa', 'expectedsarsa', 'doubleq', 'rmax', 'bpi', 'ga',
              'semimdp', 'implicit', 'mdp_rollout', 'pomdp_rollout']
one, h = F(1), F(1, 2)
# problem menu: small stochastic MDPs with uniform action sets, last state absorbing, every policy proper
MDPS = [
    ('mdp', 3, ((('a', ((1, h), (0, h)), F(-1)), ('b', ((2, h), (0, h)), F(-2))),
                (('a', ((2, h), (0, h)), F(-1)), ('b', ((2, one),), F(-2))),
                (('a', ((2, one),), F(0)), ('b', ((2, one),), F(0)))), (2,), ((0, h), (1, h)), F(9, 10)),
    ('mdp', 4, ((('a', ((1, h), (2, h)), F(-1)), ('b', ((3, F(1, 4)), (0, F(3, 4))), F(-1))),
                (('a', ((3, h), (2, h)), F(-2)), ('b', ((0, h), (3, h)), F(-1))),
                (('a', ((3, h), (1, h)), F(-1)), ('b', ((3, one),), F(-3))),
                (('a', ((3, one),), F(0)), ('b', ((3, one),), F(0)))), (3,), ((0, one),), F(9, 10)),
]
# deterministic graph for search (ties on purpose)
GRAPH = ('mdp', 4, ((('a', ((1, one),), F(-1)), ('b', ((2, one),), F(-1))),
                    (('a', ((3, one),), F(-1)), ('b', ((0, one),), F(-1))),
                    (('a', ((3, one),), F(-1)), ('b', ((1, one),), F(-1))),
                    (('a', ((3, one),), F(0)), ('b', ((3, one),), F(0)))), (3,), ((0, one),), F(1))
OBS = ((((('x', F(3, 4)), ('y', F(1, 4))), (('x', F(1, 4)), ('y', F(3, 4))), (('x', h), ('y', h)), (('y', one),)),
        ((('x', one),), (('y', one),), (('x', h), ('y', h)), (('x', h), ('y', h)))))


def bounds(tier):
    return {'quick': {'seeds': '0,1,2,VERIF_SEED', 'prior global states': 3, 'salt assignments': 'all 24 permutations of 2 hash-value menus',
                      'PYTHONHASHSEED': [0, 1, 2, 3], 'problems': len(MDPS)},
            'thorough': {'seeds': '0..5,VERIF_SEED', 'salt assignments': 'all injective maps of 4 labels into 3 hash-value menus',
                         'PYTHONHASHSEED': list(range(16))}}[tier]


class Salted:
    """A label whose hash is assigned by the harness."""
    __slots__ = ('name', 'h')

    def __init__(self, name, h):
        self.name, self.h = name, h

    def __hash__(self): return self.h
    def __eq__(self, o): return isinstance(o, Salted) and o.name == self.name
    def __lt__(self, o): return self.name < o.name
    def __repr__(self): return self.name


def make_labelers(mode, salts=None, n=4):
    """state / action / option-name labelers. mode 'str' or 'salt' (salts: dict name -> hash value)."""
    if mode == 'str':
        return (lambda i: 'state%d' % i), (lambda a: 'act_' + a), (lambda nm: 'opt_' + nm)
    if mode == 'fd':
        # unsortable labels whose hash goes through salted strings (what the built-in grid worlds use for states and actions)
        from frozendict import frozendict
        return (lambda i: frozendict({'cell': 'c%d' % i})), (lambda a: frozendict({'move': 'act_' + a})), (lambda nm: 'opt_' + nm)
    mk = lambda nm: Salted(nm, salts[nm])
    return (lambda i: mk('state%d' % i)), (lambda a: mk('act_' + a)), (lambda nm: mk('opt_' + nm))


def build_mdp(spec_item, sl, al):
    from mc import build
    from mc.refmdp import Spec
    spec = Spec(spec_item)

    class LabMDP(build.SpecMDP):
        pass
    m = LabMDP(spec)
    m.sl, m.al = sl, al
    m.s_of = {sl(i): i for i in range(spec.n)}
    m.a_of = {al(a): a for a in 'ab'}
    return m, spec


def build_pomdp(spec_item, sl, al):
    from mc import pomdpspec
    ps = pomdpspec.PSpec(('pomdp', spec_item, OBS))
    p = pomdpspec.SpecPOMDP(ps)
    p.sl, p.al = sl, al
    p.s_of = {sl(i): i for i in range(ps.n)}
    p.a_of = {al(a): a for a in 'ab'}
    return p, ps


def canon(x):
    if isinstance(x, float):
        return repr(x)
    if isinstance(x, (np.floating, np.integer)):
        return repr(x.item())
    if isinstance(x, np.ndarray):
        return canon(x.tolist())
    if hasattr(x, 'detach'):
        return canon(x.detach().numpy())
    if isinstance(x, dict):
        return sorted(([repr(k), canon(v)] for k, v in x.items()), key=lambda kv: kv[0])
    if isinstance(x, (list, tuple)):
        return [canon(v) for v in x]
    if isinstance(x, (set, frozenset)):
        return sorted(repr(v) for v in x)
    if isinstance(x, (int, str, bool)) or x is None:
        return x
    return repr(x)


def run_component(name, pi, seed, labelers):
    """Runs one randomised component with the given seed and returns a canonical (JSON-able) result."""
    sl, al, onm = labelers
    from msdm.core.distributions import DictDistribution, ImplicitDistribution
    from msdm.core.mdp import FunctionalPolicy
    with warnings.catch_warnings():
        warnings.simplefilter('ignore')
        if name in ('astar', 'astar_tie', 'bfs'):
            mdp, spec = build_mdp(GRAPH, sl, al)
        elif name in ('bpi', 'ga', 'pomdp_rollout'):
            mdp, spec = build_pomdp(MDPS[pi], sl, al)
        else:
            mdp, spec = build_mdp(MDPS[pi], sl, al)
        states = [sl(i) for i in range(spec.n)]
        if name == 'laostar':
            from msdm.algorithms.laostar import LAOStar
            planner = LAOStar(heuristic=lambda s: 0.0, seed=seed)
            outs = []
            for _ in range(2):      # the same object, used twice
                res = planner.plan_on(mdp)
                outs.append(canon([res.initial_value, dict(res.state_value_map), {s: dict(res.policy.action_dist(s).items()) for s in states},
                                   {repr(s): [repr(a) for a in n['action_order']] for s, n in res.explicit_graph.states_to_nodes.items()}]))
            if outs[0] != outs[1]:
                raise SecondCallDiffers(name)
            return outs[0]
        if name == 'lrtdp':
            from msdm.algorithms.lrtdp import LRTDP
            planner = LRTDP(heuristic=lambda s: 0.0, seed=seed, randomize_action_order=True)
            outs = []
            for _ in range(2):
                res = planner.plan_on(mdp)
                outs.append(canon([res.initial_value, dict(res.V), {s: dict(res.policy.action_dist(s).items()) for s in states},
                                   {repr(k): [repr(a) for a in v] for k, v in res.action_orders.items()}]))
            if outs[0] != outs[1]:
                raise SecondCallDiffers(name)
            return outs[0]
        if name == 'astar':
            from msdm.algorithms.search import AStarSearch
            stored = {s: list(mdp.actions(s)) for s in states}
            snapshot = {repr(s): [repr(a) for a in v] for s, v in stored.items()}
            mdp.actions = lambda s: stored[s]
            outs = []
            for _ in range(2):
                res = AStarSearch(seed=seed, tie_breaking_strategy='random', randomize_action_order=True).plan_on(mdp)
                outs.append(canon([res.path, res.path_value, res.visited]))
            if outs[0] != outs[1] or {repr(s): [repr(a) for a in v] for s, v in stored.items()} != snapshot:
                raise SecondCallDiffers(name)
            return outs[0]
        if name == 'astar_tie':
            from msdm.algorithms.search import AStarSearch
            res = AStarSearch(seed=seed, tie_breaking_strategy='random', randomize_action_order=False).plan_on(mdp)
            return canon([res.path, res.path_value, res.visited])
        if name == 'bfs':
            from msdm.algorithms.search import BreadthFirstSearch
            stored = {s: list(mdp.actions(s)) for s in states}
            snapshot = {repr(s): [repr(a) for a in v] for s, v in stored.items()}
            mdp.actions = lambda s: stored[s]          # the problem hands out its own stored list of actions
            outs = []
            for _ in range(2):
                res = BreadthFirstSearch(seed=seed, randomize_action_order=True).plan_on(mdp)
                outs.append(canon([res.path, res.visited]))
            if outs[0] != outs[1] or {repr(s): [repr(a) for a in v] for s, v in stored.items()} != snapshot:
                raise SecondCallDiffers(name)
            return outs[0]
        if name in ('qlearning', 'sarsa', 'expectedsarsa', 'doubleq'):
            import msdm.algorithms.tdlearning as td
            cls = {'qlearning': td.QLearning, 'sarsa': td.SARSA, 'expectedsarsa': td.ExpectedSARSA, 'doubleq': td.DoubleQLearning}[name]
            both = []
            # soft exploration, and the purely greedy setting whose only draws break ties between equal Q-values
            for rc, temp in ((0.3, 0.5), (0.0, 0.0)):
                learner = cls(episodes=6, step_size=0.5, rand_choose=rc, softmax_temp=temp, seed=seed)
                outs = []
                for _ in range(2):
                    res = learner.train_on(mdp)
                    outs.append(canon([{s: dict(v) for s, v in dict(res.q_values).items()}, res.event_listener_results.episode_rewards]))
                if outs[0] != outs[1]:
                    raise SecondCallDiffers(name)
                both.append(outs[0])
            return both
        if name == 'rmax':
            from msdm.algorithms.rmax import RMAX
            learner = RMAX(episodes=4, rmax=float(np.max(mdp.reward_matrix)), num_transition_samples=2, seed=seed)
            outs = []
            for _ in range(2):
                res = learner.train_on(mdp)
                outs.append(canon([{s: dict(v) for s, v in res.q_values.items()}, res.event_listener_results.episode_rewards]))
            if outs[0] != outs[1]:
                raise SecondCallDiffers(name)
            return outs[0]
        if name == 'bpi':
            from msdm.algorithms.fscboundedpolicyiteration import FSCBoundedPolicyIteration
            res = FSCBoundedPolicyIteration(controller_state_count=2, iterations=3, seed=seed).train_on(mdp)
            return canon([res.value, res.policy.action_strategy, res.policy.observation_strategy, res.policy.initial_state_dist])
        if name == 'ga':
            from msdm.algorithms.fscgradientascent import FSCGradientAscent
            res = FSCGradientAscent(controller_state_count=2, iterations=3, seed=seed).train_on(mdp)
            return canon([res.value.expected_value, res.policy.action_strategy, res.policy.observation_strategy])
        if name == 'semimdp':
            from msdm.core.semimdp.option import Option
            from msdm.core.semimdp.semimdp import SemiMarkovDecisionProcess

            def mkopt(nm, terminal, pa):
                class Opt(Option):
                    def __init__(self):
                        self.policy = FunctionalPolicy(lambda s: DictDistribution({al('a'): pa, al('b'): 1 - pa}))
                        self.name = onm(nm)
                        self.max_steps = 50
                    def is_terminal(self, s): return mdp.s_of[s] in terminal
                    def is_initial(self, s): return True
                    def __hash__(self): return hash(self.name)
                    def __eq__(self, o): return self is o
                    def __repr__(self): return 'Opt(%r)' % (self.name,)
                return Opt()
            opts = [mkopt('go', (spec.n - 1,), 0.5), mkopt('near', (1, spec.n - 1), 0.25)]
            smdp = SemiMarkovDecisionProcess(mdp=mdp, options=opts, n_option_simulations=4, seed=seed)
            out = []
            for s in states[:-1]:
                for o in opts:
                    out.append([repr(s), repr(o), dict(smdp.next_state_transit_time_reward_dist(s, o).items())])
            return canon(out)
        if name == 'implicit':
            def func(rng):
                v = rng.random()
                return sl(0) if v < .5 else (sl(1) if v < .75 else sl(2))
            d = ImplicitDistribution(func, n_samples=30, _seed=seed)
            items = dict(d.items())
            d2 = ImplicitDistribution(func, n_samples=30, _seed=seed)
            samples = [d2.sample() for _ in range(10)]
            d3 = ImplicitDistribution(func, n_samples=30, _seed=seed).marginalize(lambda e: repr(e)[-1])
            # a conditioned child sampled with an explicit, equally seeded generator, alone and interleaved with its parent
            parent = ImplicitDistribution(func, n_samples=30, _seed=seed)
            child = parent.condition(lambda e: e != sl(0))
            alone = [child.sample(rng=random.Random(5)) for _ in range(3)]
            g1 = random.Random(5)
            inter = []
            for _ in range(6):
                parent.sample()
                inter.append(child.sample(rng=g1))
            g2 = random.Random(5)
            expect = [ImplicitDistribution(func, n_samples=30, _seed=99).condition(lambda e: e != sl(0)).sample(rng=g2) for _ in range(6)]
            if inter != expect or alone != [expect[0]] * 3:
                raise SecondCallDiffers(name)
            return canon([items, samples, dict(d3.items()), inter])
        if name == 'mdp_rollout':
            pol = FunctionalPolicy(lambda s: DictDistribution({al('a'): 0.5, al('b'): 0.5}))
            traj = pol.run_on(mdp, rng=random.Random(seed))
            ev = pol.evaluate_on(mdp, n_simulations=4, rng=random.Random(seed))
            # roll-outs of planned (tabular) policies: ties are broken by draws over the policy's own action order
            from msdm.algorithms import ValueIteration
            planned = []
            gmdp = build_mdp(GRAPH, sl, al)[0]          # the graph with tied optimal actions
            for ver in ('vectorized', 'dict'):
                for m_ in (mdp, gmdp):
                    ppol = ValueIteration(_version=ver).plan_on(m_).policy
                    planned.append([[dict(st) for st in ppol.run_on(m_, rng=random.Random(seed), max_steps=12).steps] for _ in range(2)])
            return canon([[dict(st) for st in traj.steps], ev.initial_value, {s: float(ev.state_value[s]) for s in ev.state_value.state_list},
                          planned])
        if name == 'pomdp_rollout':
            from msdm.algorithms.qmdp import QMDP
            pol = QMDP().plan_on(mdp).policy
            traj = pol.run_on(mdp, rng=random.Random(seed), max_steps=8)
            return canon([[st.state, st.action, st.nextstate, st.reward, st.observation] for st in traj])
    raise HarnessError('unknown component ' + name)


class SecondCallDiffers(Exception):
    """the same seeded object gave a different result on its second call"""


def global_states():
    import torch
    return (random.getstate(), tuple(map(lambda x: x.tolist() if hasattr(x, 'tolist') else x, np.random.get_state())),
            torch.get_rng_state().numpy().tobytes())


def set_globals(k):
    import torch
    random.seed(1000 + k)
    np.random.seed(2000 + k)
    torch.manual_seed(3000 + k)
    for _ in range(k):
        random.random()
        np.random.rand()


STR_SEED_OK = ('laostar', 'lrtdp', 'astar', 'astar_tie', 'bfs', 'qlearning', 'sarsa', 'expectedsarsa', 'doubleq', 'rmax',
               'implicit', 'mdp_rollout', 'pomdp_rollout')      # components whose seed goes to random.Random (accepts str)


def seeds_for(tier, seed):
    base = [0, 1, 2] if tier == 'quick' else [0, 1, 2, 3, 4, 5]
    return sorted(set(base + [int(seed) % 100000]))


def seeds_of(component, tier, seed):
    out = list(seeds_for(tier, seed))
    if component in STR_SEED_OK:
        out.append('pilot-7')        # a string is a legal seed for random.Random; its builtin hash is salted per process
    return out


def items(tier, seed):
    for c in COMPONENTS:
        for pi in range(len(MDPS) if c not in ('astar', 'astar_tie', 'bfs') else 1):
            yield ('iso', c, pi, tuple(seeds_of(c, tier, seed)))
            yield ('salt', c, pi, tuple(seeds_for(tier, seed)[:2]))
    hs = [0, 1, 2, 3] if tier == 'quick' else list(range(16))
    for g in range(0, len(COMPONENTS), 4):
        yield ('proc', tuple(COMPONENTS[g:g + 4]), tuple(hs), tuple(seeds_for(tier, seed)[:2]) + ('pilot-7',))


def check(item, tier):
    r = Res()
    leg = item[0]
    if leg == 'iso':
        _, c, pi, seeds = item
        lab = make_labelers('str')
        results = {}
        for sd in seeds:
            outs = []
            for k in range(3):
                set_globals(k)
                before = global_states()
                try:
                    out = run_component(c, pi, sd, lab)
                except HarnessError:
                    raise
                except SecondCallDiffers:
                    r.violation('same_object_second_call_differs', {'component': c, 'seed': sd, 'prior_state': k}, item)
                    break
                except Exception as e:
                    r.violation('component_exception', {'component': c, 'seed': sd, 'error': repr(e)[:300]}, item)
                    break
                after = global_states()
                r.count('states')
                r.count('transitions', 2)
                for nm, b, a in zip(('random', 'numpy', 'torch'), before, after):
                    if b != a:
                        r.violation('global_generator_state_changed', {'component': c, 'seed': sd, 'generator': nm, 'prior_state': k}, item)
                outs.append(json.dumps(out))
            if len(outs) == 3:
                if outs[0] != outs[1] or outs[0] != outs[2]:
                    r.violation('result_depends_on_global_generators_or_not_reproducible',
                                {'component': c, 'seed': sd, 'runs_equal': [outs[0] == outs[1], outs[0] == outs[2]]}, item)
                results[sd] = outs[0]
        if len(set(results.values())) >= 2:
            r.nontriv((c, pi))
        for v in results.values():
            r.outcome((c, pi, v))
        r.sample({'leg': 'isolation', 'component': c, 'problem': pi, 'seeds': list(seeds), 'distinct_results': len(set(results.values()))})
    elif leg == 'salt':
        _, c, pi, seeds = item
        names = ['state0', 'state1', 'state2', 'state3', 'act_a', 'act_b', 'opt_go', 'opt_near']
        menus = [[0, 1, 2, 3], [1, 9, 17, 5]] if tier == 'quick' else [[0, 1, 2, 3], [1, 9, 17, 5], [7, 15, 23, 6]]
        for sd in seeds:
            ref = None
            nassign = 0
            for menu in menus:
                for perm in itertools.permutations(menu):
                    # states get the permuted menu; actions / option names get the menu rotated (kept distinct from each other)
                    salts = {nm: perm[i] for i, nm in enumerate(names[:4])}
                    salts.update({'act_a': perm[1] + 32, 'act_b': perm[0] + 32, 'opt_go': perm[2] + 64, 'opt_near': perm[3] + 64})
                    try:
                        out = json.dumps(run_component(c, pi, sd, make_labelers('salt', salts)))
                    except HarnessError:
                        raise
                    except Exception as e:
                        r.violation('component_exception_under_salt', {'component': c, 'seed': sd, 'salts': salts, 'error': repr(e)[:300]}, item)
                        continue
                    nassign += 1
                    r.count('states')
                    r.count('transitions')
                    if ref is None:
                        ref = (out, dict(salts))
                    elif out != ref[0]:
                        r.violation('result_depends_on_hash_values', {'component': c, 'seed': sd, 'salts_a': ref[1], 'salts_b': salts}, item,
                                    finding=None)
                        break
            r.nontriv((c, pi, sd))
        r.sample({'leg': 'virtual hash salts', 'component': c, 'problem': pi, 'assignments': nassign})
    else:
        _, comps, hs, seeds = item
        outs = {}
        procs = []
        env = dict(os.environ)
        for hseed in hs:
            e = dict(env, PYTHONHASHSEED=str(hseed))
            procs.append((hseed, subprocess.Popen([sys.executable, '-W', 'ignore', '-m', 'props.C13', '--worker', ','.join(comps),
                                                   ','.join(map(str, seeds))], stdout=subprocess.PIPE, stderr=subprocess.PIPE, env=e,
                                                  cwd=os.path.dirname(os.path.dirname(os.path.abspath(__file__))))))
        for hseed, p in procs:
            so, se = p.communicate(timeout=600)
            if p.returncode != 0:
                raise HarnessError('C13 worker failed: ' + se.decode()[-800:])
            outs[hseed] = json.loads(so.decode().strip().splitlines()[-1])
            r.count('states', len(outs[hseed]))
        first = outs[hs[0]]
        for hseed in hs[1:]:
            for key, val in first.items():
                r.count('transitions')
                if outs[hseed].get(key) != val:
                    r.violation('result_differs_between_processes', {'case': key, 'PYTHONHASHSEED_a': hs[0], 'PYTHONHASHSEED_b': hseed}, item)
        for key in first:
            r.nontriv(key)
        r.sample({'leg': 'processes', 'components': list(comps), 'PYTHONHASHSEED': list(hs), 'cases': len(first)})
    return r


def worker_main(argv):
    comps = argv[0].split(',')
    seeds = [int(x) if x.lstrip('-').isdigit() else x for x in argv[1].split(',')]
    out = {}
    lab = make_labelers('str')
    for c in comps:
        for pi in range(len(MDPS) if c not in ('astar', 'astar_tie', 'bfs') else 1):
            for sd in seeds:
                if isinstance(sd, str) and c not in STR_SEED_OK:
                    continue
                try:
                    out['%s|%d|%s' % (c, pi, sd)] = json.dumps(run_component(c, pi, sd, lab))
                except Exception as e:
                    out['%s|%d|%s' % (c, pi, sd)] = 'EXC ' + repr(e)[:200]
                if c in ('mdp_rollout', 'rmax', 'qlearning', 'lrtdp'):
                    try:
                        out['%s|%d|%s|unsortable labels' % (c, pi, sd)] = json.dumps(run_component(c, pi, sd, make_labelers('fd')))
                    except Exception as e:
                        out['%s|%d|%s|unsortable labels' % (c, pi, sd)] = 'EXC ' + repr(e)[:200]
    print(json.dumps(out))


def replay(rec):
    return check(item_from_record(rec), rec.get('tier', 'quick'))


if __name__ == '__main__':
    if len(sys.argv) > 1 and sys.argv[1] == '--worker':
        worker_main(sys.argv[2:])
