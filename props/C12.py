"""C12 -- tables index like nested dictionaries over their field domains.

Engine E1: bounded-exhaustive enumeration of small tables (Table, ProbabilityTable, StateTable,
StateActionTable, StateActionNextStateTable, TabularPolicy) whose field domains are drawn from a pool
of hashables engineered to collide (1 == True == 1.0, tuples that equal full / prefix keys of inner
elements, 1-tuples of elements).  Every key of a finite key alphabet is looked up on the real table
and on an independent reference made of plain nested `dict`s whose leaves are the row-major cell
numbers; the verdict is exact equality (cell numbers are mapped to pairwise distinct cell values, so
any mis-indexing is visible)."""
from itertools import permutations, product

import numpy as np

from mc.run import Res, HarnessError, item_from_record

ID = 'C12'
RULE = ("Items are field-domain tuples (1-3 fields).  Each family listed in bounds.families is the FULL Cartesian "
        "product, per field, of ALL ordered selections of the stated sizes of pairwise ==-distinct elements of the "
        "stated sub-pool of the collision pool (0, 1, True, 1.0, 'a', ('a',), (0,1), (0,'a'), frozenset({0}), None); "
        "every item is instantiated as every applicable class (Table, Table built from Field objects, "
        "ProbabilityTable, StateTable / StateActionTable (from lists and from_dict), StateActionNextStateTable, "
        "TabularPolicy).  Behind each table every key of the key alphabet is looked up: tuples of per-field "
        "(element | ':') of every length, the same with one '...' replacing any (also empty) run of ':', bare "
        "elements / ':' / '...', every nested chain (all compositions of every full key, 1-tuple steps, chains "
        "through ':' / '...' and through list selections), every ordered sub-list of the outer domain, all 1-element "
        "lists over the key pool and all 2-element lists over the pool that touch the domain, every pool element "
        "substituted at every position of every full / prefix key (bare, in tuples, at the end of nested chains), "
        "over-long tuples, unhashable keys, get(), keys/items/values/len/iter, the distribution interface of every "
        "probability row (support, prob, items, probs, len, sample with a recording rng), action_dist.  The "
        "constructor-variant classes (Field-built Table, from_dict) run the core part of the alphabet only. "
        "states = distinct (class, constructor, domains) tables; transitions = single key lookups (a chain counts "
        "one per step) compared with the nested-dict reference.  Non-trivial = the table has a tuple element in the "
        "outer domain that is also a valid field-wise full/prefix key (or the 1-tuple of an element), a tuple "
        "element in an inner field whose members are elements of that field or a key of the fields below, or a "
        "domain element for which the pool holds an equal but non-identical key (1/True/1.0).")
ASSUMPTIONS = [
    "domain elements come from the 10-element collision pool; domains have pairwise distinct elements under == "
    "(Table validation demands it); sizes: quick 1-3 (size 3 for 2-3 fields only over collision sub-pools), thorough "
    "1-4 (size 4 for 1-2 fields); the exact families are listed in coverage.bounds.families",
    "keys come from the pool plus equal-but-not-identical alternates (False, 0.0, (False, True), (0, 1.0), (0.0, 'a'), "
    "frozenset({False})), the always-foreign scalars 2 and 'b' and the unhashable {5}, {0: 1}; other key values are not covered",
    "demanded (oracle): element keys, tuples of per-field element / full slice / one ellipsis, top-level lists of distinct "
    "outer keys, top-level ':' and '...' -- with the precedence that a key which is an element of the outermost domain "
    "(dict semantics: == and hash) selects that element; keys outside the domain (foreign scalar, tuple with a foreign "
    "component, list with a foreign element, over-long tuple) must raise: StateActionIndexError when the indexed object is a "
    "StateTable subclass, any exception (DomainError derives from BaseException) otherwise; get(key, default) must equal "
    "t[key] for resolvable keys and may either return the default or raise for foreign keys, never a cell",
    "counted but not judged (statement silent): a list inside a tuple, a tuple of domain members used as a field "
    "selector, lists with repeats, empty list / tuple, non-full slices, several ellipses, domaintuple keys, "
    "prob(e) of tuples that are not events but resolve field-wise as table keys, `in`",
    "probability-table rows are row-normalised distinct primes (one zero entry in the last row; one-event rows keep "
    "distinct unnormalised entries) so every cell of a table is distinct; exact float equality with the array cell is "
    "demanded (no arithmetic happens on the path)",
    "PYTHONHASHSEED is fixed by ./check; StateActionTable.from_dict orders actions by a set, the reference takes the "
    "order the table reports after checking it is a permutation of the action set",
]
BUDGET = {'quick': 900, 'thorough': 3600}
CHUNK = {'quick': 16, 'thorough': 16}
MANIFEST = {
    'engines': ['E1-enum'],
    'technique': 'bounded-exhaustive enumeration of tables over a collision-engineered pool of hashables and of a '
                 'finite key alphabet per table, every lookup compared with a nested-dict reference (outer-domain '
                 'element first, then field-wise)',
    'level_text': 'every table of the bounded family x every key of the key alphabet is executed on the real '
                  'msdm classes and compared exactly with an independent nested-dict reference',
    'design_ref': 'DESIGN.md section 3 / C12',
}

POOL = (0, 1, True, 1.0, 'a', ('a',), (0, 1), (0, 'a'), frozenset({0}), None)
# equal-but-not-identical alternates of pool elements and two always-foreign scalars (keys only)
ALTS = (False, 0.0, (False, True), (0, 1.0), (0.0, 'a'), frozenset({False}), 2, 'b', 0.3, 0.1 + 0.2)   # the last two differ by one ulp
KEYPOOL = POOL + ALTS
# always-foreign, unhashable, neither list nor tuple (bare and as a tuple component).  Deliberately not {0}: a set
# equals frozenset({0}) under == while being unhashable, which no dict can express (the statement speaks of hashables)
UNHASHABLE = ({5}, {0: 1})
SL = slice(None)
ELL = Ellipsis
PRIMES = (2, 3, 5, 7, 11, 13, 17, 19, 23, 29, 31, 37, 41, 43, 47, 53, 59, 61, 67, 71, 73, 79, 83, 89, 97, 101,
          103, 107, 109, 113, 127, 131, 137, 139, 149, 151, 157, 163, 167, 173, 179, 181, 191, 193, 197, 199,
          211, 223, 227, 229, 233, 239, 241, 251, 257, 263, 269, 271, 277, 281, 283, 293, 307, 311, 313, 317,
          331, 337, 347, 349, 353, 359, 367, 373, 379, 383, 389, 397, 401, 409, 419, 421, 431, 433, 439, 443)


# ----------------------------------------------------------------------------------------------
#  the enumerated space
# ----------------------------------------------------------------------------------------------
def ordered_domains(pool, sizes):
    """All ordered selections (no repetition) of pool elements that are pairwise distinct under
    ==/hash (what a dict / Table validation sees), simplest first."""
    out = []
    for k in sizes:
        for sel in permutations(pool, k):
            if len(set(sel)) == k:
                out.append(sel)
    return out


P7 = (0, 1, True, 'a', ('a',), (0, 1), (0, 'a'))          # the pool without 1.0, frozenset({0}), None
P8 = (0, 1, True, 'a', ('a',), (0, 1), (0, 'a'), frozenset({0}))
P6 = (0, 1, True, 'a', (0, 1), (0, 'a'))
Q5 = (0, 1, True, 'a', (0, 1))
T4 = (0, 'a', (0, 1), (0, 'a'))


def families(tier):
    """The enumerated space: a list of (description, [per-field (sub-pool, sizes)]); each family is the full
    Cartesian product of ALL ordered domains of the given sizes over the given sub-pools."""
    if tier == 'quick':
        return [
            ('1 field, sizes 1-3, whole pool', [(POOL, (1, 2, 3))]),
            ('1-2 fields over floats one ulp apart', [((0.3, 0.1 + 0.2, 'a'), (1, 2, 3))]),
            ('2 fields, floats one ulp apart x (0, \'a\')', [((0.3, 0.1 + 0.2, 'a'), (1, 2)), ((0, 'a'), (1, 2))]),
            ('2 fields, outer sizes 1-2 over P8 x inner sizes 1-2 over Q5', [(P8, (1, 2)), (Q5, (1, 2))]),
            ('2 fields, outer size 1 whole pool x inner sizes 1-2 whole pool', [(POOL, (1,)), (POOL, (1, 2))]),
            ('2 fields, outer size 3 over T4 x inner sizes 1,3 over (1,\'a\',0,True)', [(T4, (3,)), ((1, 'a', 0, True), (1, 3))]),
            ('3 fields, sizes 1-2', [(T4, (1, 2)), ((0, 'a', (0, 1), True), (1, 2)),
                                    ((1.0, 'a'), (1, 2))]),
            ('3 fields, 3x3x{1,3}', [((0, (0, 1), (0, 'a')), (3,)), ((1, 'a', (0, 1)), (3,)), (('a', 1.0, 0), (1, 3))]),
        ]
    return [
        ('1 field, sizes 1-4, whole pool', [(POOL, (1, 2, 3, 4))]),
        ('1-2 fields over floats one ulp apart', [((0.3, 0.1 + 0.2, 'a'), (1, 2, 3))]),
        ('2 fields, floats one ulp apart x (0, \'a\')', [((0.3, 0.1 + 0.2, 'a'), (1, 2)), ((0, 'a'), (1, 2))]),
        ('2 fields, sizes 1-2 x 1-2, whole pool', [(POOL, (1, 2)), (POOL, (1, 2))]),
        ('2 fields, outer size 3 x inner sizes 1-2 over P7', [(P7, (3,)), (P7, (1, 2))]),
        ('2 fields, outer sizes 1-2 x inner size 3 over P7', [(P7, (1, 2)), (P7, (3,))]),
        ('2 fields, outer sizes 3-4 over T4 x inner size 3 over (0,1,True,\'a\') / size 4 over (0,1.0,\'a\',(0,1))',
         [(T4, (3, 4)), ((0, 1, True, 'a'), (3,))]),
        ('2 fields, (cont.)', [(T4, (3, 4)), ((0, 1.0, 'a', (0, 1)), (4,))]),
        ('3 fields, sizes 1-2 over P6 x P6 x (\'a\',1.0,0)', [(P6, (1, 2)), (P6, (1, 2)), (('a', 1.0, 0), (1, 2))]),
        ('3 fields, 3x3x{1,2,3}', [((0, (0, 1), (0, 'a')), (3,)), ((1, 'a', (0, 1)), (3,)), (('a', 1.0, 0), (1, 2, 3))]),
    ]


def domain_items(tier):
    seen = set()
    for _, fields in families(tier):
        for doms in product(*[ordered_domains(pool, sizes) for pool, sizes in fields]):
            k = repr(doms)
            if k not in seen:
                seen.add(k)
                yield doms


def items(tier, seed):
    # seed only rotates where the enumeration starts (all items are always produced)
    its = list(domain_items(tier))
    k = seed % len(its) if its else 0
    for doms in its[k:] + its[:k]:
        yield ('tbl', doms)


def bounds(tier):
    n = {}
    for doms in domain_items(tier):
        n[len(doms)] = n.get(len(doms), 0) + 1
    return {'pool': [repr(p) for p in POOL], 'key_pool_extra': [repr(p) for p in ALTS],
            'domain_tuples_by_n_fields': n,
            'classes': {'1': CLASSES[1], '2': CLASSES[2], '3': CLASSES[3]},
            'families': [f'{name}: ' + ' x '.join(f'OD{list(sizes)}{list(map(repr, pool))}' for pool, sizes in fields)
                         for name, fields in families(tier)]}


# class label -> (n_fields it applies to); constructor variants are in build_table
CLASSES = {
    1: ['Table', 'TableF', 'ProbabilityTable', 'StateTable', 'StateTable.from_dict'],
    2: ['Table', 'TableF', 'ProbabilityTable', 'StateActionTable', 'StateActionTable.from_dict', 'StateActionTable.from_dict(ragged)',
        'StateNextStateTable', 'TabularPolicy'],
    3: ['Table', 'ProbabilityTable', 'StateActionNextStateTable'],
}
PROB = {'ProbabilityTable', 'TabularPolicy'}
# constructor variants: only the core part of the key alphabet (element / tuple / chain / outer-key-list /
# pool keys bare and substituted into full keys) is run on them
LIGHT = {'TableF', 'StateTable.from_dict', 'StateActionTable.from_dict', 'StateActionTable.from_dict(ragged)', 'StateNextStateTable'}


# ----------------------------------------------------------------------------------------------
#  the reference: nested dicts, leaves = row-major cell numbers
# ----------------------------------------------------------------------------------------------
def member(d, k):
    """dict membership with dict semantics (== and hash); unhashable keys are members of nothing."""
    try:
        return k in d
    except TypeError:
        return False


class R:
    """Reference table: `doms` (tuple of tuples, outermost first) and `nd` (nested dict keyed by the
    domain elements in order, leaves = cell numbers).  last_full: the last field is the original
    table's last field, unrestricted (so a 1-field R with last_full is a *row*)."""
    __slots__ = ('doms', 'nd', 'last_full', '_dd', '_ids')

    def __init__(self, doms, nd, last_full):
        self.doms = tuple(tuple(d) for d in doms)
        self.nd = nd
        self.last_full = last_full
        self._dd = None
        self._ids = None

    @property
    def dd(self):
        if self._dd is None:
            self._dd = [{e: e for e in d} for d in self.doms]
        return self._dd

    @property
    def ids(self):
        if self._ids is None:
            def rec(x, depth):
                if depth == 0:
                    return x
                return [rec(v, depth - 1) for v in x.values()]
            self._ids = np.array(rec(self.nd, len(self.doms)), dtype=np.intp)
        return self._ids

    def is_row(self):
        return len(self.doms) == 1 and self.last_full


def full_ref(doms):
    shape = [len(d) for d in doms]
    strides = [1] * len(doms)
    for i in range(len(doms) - 2, -1, -1):
        strides[i] = strides[i + 1] * shape[i + 1]

    def rec(i, base):
        if i == len(doms):
            return base
        return {e: rec(i + 1, base + p * strides[i]) for p, e in enumerate(doms[i])}
    return R(doms, rec(0, 0), len(doms) >= 2)     # a 1-field table has no rows


def _sel(nd, comps):
    if not comps:
        return nd
    c, rest = comps[0], comps[1:]
    if c[0] == 'fix':
        return _sel(nd[c[1]], rest)
    if c[0] == 'keep':
        return {k: _sel(v, rest) for k, v in nd.items()}
    return {k: _sel(nd[k], rest) for k in c[1]}          # 'sub': the given keys, in the given order


def select(ref, comps):
    """comps: per leading field ('fix', key) | ('keep',) | ('sub', [canonical keys]); trailing
    fields are kept.  Returns a cell number or a new R."""
    n = len(ref.doms)
    doms = []
    for i in range(n):
        c = comps[i] if i < len(comps) else ('keep',)
        if c[0] == 'keep':
            doms.append(ref.doms[i])
        elif c[0] == 'sub':
            doms.append(tuple(c[1]))
    nd = _sel(ref.nd, comps)
    if not doms:
        return nd
    lastc = comps[n - 1] if n - 1 < len(comps) else ('keep',)
    return R(doms, nd, ref.last_full and lastc[0] == 'keep')


VAL, RAISE, RAISE_ANY, UNSPEC = 'val', 'raise', 'raise_any', 'unspec'


def classify(ref, key):
    """What the statement demands of ref[key]:
       (VAL, cell-number | R)   the lookup must succeed with exactly this
       (RAISE, why)             key outside the domain: must raise (index error type for MDP tables)
       (RAISE_ANY, why)         outside the domain and also using an unspecified construct: must raise something
       (UNSPEC, why)            the statement does not say; counted only.
       For UNSPEC a third entry may hold the 'natural' numpy-like expectation (observed, never judged)."""
    dd = ref.dd
    n = len(dd)
    # precedence: a key that is itself an element of the outermost domain selects that element
    if member(dd[0], key):
        return (VAL, select(ref, [('fix', key)]))
    if isinstance(key, slice):
        return (VAL, ref) if key == SL else (UNSPEC, 'partial_slice')
    if key is ELL:
        return (VAL, ref)
    if isinstance(key, list):
        if not key:
            return (UNSPEC, 'empty_list')
        if not all(member(dd[0], k) for k in key):
            return (RAISE, 'list_with_foreign_key')
        canon = [dd[0][k] for k in key]
        if len(set(canon)) != len(canon):
            return (UNSPEC, 'list_with_repeats')
        return (VAL, select(ref, [('sub', canon)]))
    if isinstance(key, tuple):
        comps = list(key)
        unspec = None
        n_ell = sum(1 for c in comps if c is ELL)
        if n_ell > 1:
            unspec = 'several_ellipses'
            comps = [SL if c is ELL else c for c in comps]
        elif n_ell == 1:
            i = next(j for j, c in enumerate(comps) if c is ELL)
            comps = comps[:i] + [SL] * max(0, n - len(comps) + 1) + comps[i + 1:]
        if not comps:
            return (UNSPEC, 'empty_tuple')
        if len(comps) > n:
            return (RAISE_ANY if unspec else RAISE, 'too_many_keys')
        out = []
        foreign = False
        nseq = 0
        for i, c in enumerate(comps):
            if member(dd[i], c):
                out.append(('fix', c))
            elif isinstance(c, slice):
                if c == SL:
                    out.append(('keep',))
                else:
                    unspec = unspec or 'partial_slice'
                    out.append(('keep',))
            elif isinstance(c, (list, tuple)):
                if all(member(dd[i], e) for e in c):
                    canon = [dd[i][e] for e in c]
                    nseq += 1
                    if isinstance(c, tuple):
                        unspec = unspec or 'tuple_of_members_as_selector'
                    elif not c:
                        unspec = unspec or 'empty_list'
                    elif len(set(canon)) != len(canon):
                        unspec = unspec or 'list_with_repeats'
                    else:
                        unspec = unspec or 'list_in_tuple'
                    out.append(('sub', canon))
                else:
                    foreign = True
            else:
                foreign = True
        if nseq > 1:
            unspec = 'several_sequences'
        if foreign:
            return (RAISE_ANY if unspec else RAISE, 'foreign_key_in_tuple')
        if unspec:
            if unspec == 'list_in_tuple':
                return (UNSPEC, unspec, select(ref, out))
            return (UNSPEC, unspec)
        return (VAL, select(ref, out))
    return (RAISE, 'foreign_scalar')


# ----------------------------------------------------------------------------------------------
#  key alphabet
# ----------------------------------------------------------------------------------------------
def compositions(n):
    if n == 0:
        yield ()
        return
    for first in range(1, n + 1):
        for rest in compositions(n - first):
            yield (first,) + rest


def gen_programs(doms, tier):
    """List of (tag, steps, core): t[steps[0]][steps[1]]...  Deterministic, duplicates (by repr) removed.
    core programs are also run on the constructor-variant classes (TableF, *.from_dict)."""
    from msdm.core.table.tableindex import domaintuple
    n = len(doms)
    progs = []
    seen = set()

    core_on = [True]

    def add(tag, *steps):
        k = repr(steps)
        if k not in seen:
            seen.add(k)
            progs.append((tag, steps, core_on[0]))

    alph = [list(d) + [SL] for d in doms]
    # A. tuples of per-field (element | ':') of every length; bare element / ':' / '...'
    for m in range(1, n + 1):
        for comps in product(*alph[:m]):
            add('tuple', comps)
            if m == 1:
                add('bare', comps[0])
    add('bare', ELL)
    # B. one ellipsis replacing any (also empty) run of ':'
    core_on[0] = False
    for comps in product(*alph):
        for i in range(n + 1):
            for j in range(i, n + 1):
                if all(isinstance(c, slice) for c in comps[i:j]):
                    add('ellipsis', comps[:i] + (ELL,) + comps[j:])
    # C. nested chains
    fulls = list(product(*doms))
    for full in fulls:
        core_on[0] = True
        for comp in compositions(n):
            if len(comp) == 1:
                continue
            steps, pos = [], 0
            for ln in comp:
                part = full[pos:pos + ln]
                pos += ln
                steps.append(part[0] if ln == 1 else part)
            add('chain', *steps)
        core_on[0] = False
        if n > 1:
            add('chain', *[(k,) for k in full])
        add('chain', SL, full)
        add('chain', ELL, *full)
        if n > 1:
            add('chain', full[0], (ELL,) + full[1:])
            add('chain', (full[0], SL), *full[1:])
    # D. lists of outer keys
    d0 = doms[0]
    d0dict = {e: e for e in d0}
    for k in range(1, len(d0) + 1):
        for sub in permutations(d0, k):
            core_on[0] = True
            add('list', list(sub))
            core_on[0] = False
            add('chain_list', list(sub), sub[-1])
            add('chain_list', list(sub), [sub[0]])
            if n > 1:
                add('chain_list', list(sub), (sub[0],) + tuple(d[-1] for d in doms[1:]))
                add('chain_list', list(sub), (SL, doms[1][0]))
    for a in KEYPOOL:
        add('list', [a])
    for a in POOL:
        for b in POOL:
            if member(d0dict, a) or member(d0dict, b):
                add('list', [a, b])
    add('list', [])
    add('list', list(d0) + [d0[0]])
    # E. pool substitution at every position of every full / prefix key; bare; end of nested chains
    core_on[0] = True
    for a in POOL:
        add('poolkey', a)
    core_on[0] = False
    for a in ALTS + UNHASHABLE:
        add('poolkey', a)
    for a in UNHASHABLE:
        add('poolsub', tuple(d[0] for d in doms[:-1]) + (a,))
        add('poolsub', (a,) + tuple(d[-1] for d in doms[1:]))
    for m in range(n, 0, -1):
        for i in range(m):
            rest = list(product(*(doms[:i] + doms[i + 1:m])))
            core_on[0] = (m == n)
            for f in POOL:
                for others in rest:
                    add('poolsub', others[:i] + (f,) + others[i:])
            core_on[0] = False
            if m == n:                  # alternates / always-foreign scalars only around the first other keys
                for f in ALTS:
                    for others in rest[:1] + (rest[-1:] if tier == 'thorough' else []):
                        add('poolsub', others[:i] + (f,) + others[i:])
    for j in range(1, n):
        for prefix in product(*doms[:j]):
            for f in POOL:
                add('chain_pool', *prefix, f)
            for f in (ALTS if tier == 'thorough' else (2, False)):
                add('chain_pool', *prefix, f)
            if j + 1 < n:
                for f in POOL:
                    add('chain_pool', *prefix, (f, doms[j + 1][0]))
                    add('chain_pool', *prefix, (doms[j][0], f))
    for full in fulls:
        for extra in (doms[-1][0], None, SL, ELL):
            add('toolong', full + (extra,))
    # F. constructs the statement is silent about (counted, never judged) + foreign keys inside them
    add('unspec', slice(0, 1))
    add('unspec', slice(None, None, 1))
    add('unspec', ())
    add('unspec', (ELL, ELL))
    add('unspec', (tuple(d0),))
    add('unspec', (tuple(d0[:1]),))
    add('unspec', (tuple(reversed(d0)),))
    add('unspec', domaintuple(d0))
    add('unspec', (domaintuple(d0),))
    add('unspec', (list(d0),))
    add('unspec', (list(reversed(d0)),))
    add('unspec', (d0[0], slice(0, 1)))
    add('unspec', ([d0[0], 'b'],))
    add('unspec', (('b',),))
    add('unspec', ((d0[0], 'b'),))
    if n > 1:
        d1 = doms[1]
        for k0 in d0:
            add('unspec', (k0, list(d1)))
            add('unspec', (k0, list(reversed(d1))))
            add('unspec', (k0, tuple(d1)))
            add('unspec', (k0, [d1[0], 2]))
        for k1 in d1:
            add('unspec', (list(d0), k1))
            add('unspec', (list(reversed(d0)), k1))
            add('unspec', (tuple(d0), k1))
            add('unspec', (slice(0, 1), k1))
            add('unspec', (slice(0, 1), 2))
        add('unspec', (list(d0), list(d1)))
        add('unspec', ([d0[0]], 'b'))
        add('unspec', (list(d0), SL))
        add('unspec', (SL, list(reversed(d1))))
    if n > 2:
        d2 = doms[2]
        for k0 in d0:
            add('unspec', (k0, SL, list(d2)))
            add('unspec', (k0, SL, list(reversed(d2))))
            add('unspec', (k0, doms[1][0], list(reversed(d2))))
            add('unspec', (list(reversed(d0)), SL, d2[0]))
            add('unspec', (ELL, list(d2)))
    return progs


# ----------------------------------------------------------------------------------------------
#  building the real tables
# ----------------------------------------------------------------------------------------------
def cell_values(doms, prob):
    shape = tuple(len(d) for d in doms)
    ncell = int(np.prod(shape))
    if not prob:
        return np.array(PRIMES[:ncell], dtype=float)
    rowlen = shape[-1]
    for off in range(0, 12):
        w = np.array(PRIMES[off:off + ncell], dtype=float).reshape(-1, rowlen)
        if rowlen >= 2:
            w[-1, 0] = 0.0
        if rowlen >= 2:
            v = (w / w.sum(axis=1, keepdims=True)).reshape(-1)
        else:       # one-event rows: normalising would make every cell 1.0; keep the cells distinct instead
            v = (w / w.sum()).reshape(-1) if ncell > 1 else np.array([1.0])
        if len(set(v.tolist())) == ncell:
            return v
    raise HarnessError(f'no distinct normalised cell values for shape {shape}')


def build_table(label, doms, vals):
    from msdm.core.table import Table, ProbabilityTable, TableIndex
    from msdm.core.table.tableindex import Field
    from msdm.core.mdp.tables import StateTable, StateActionTable, StateActionNextStateTable
    from msdm.core.mdp.tabularpolicy import TabularPolicy
    shape = tuple(len(d) for d in doms)
    names = ('state', 'action', 'next_state')[:len(doms)]
    if label == 'Table':
        data = vals.astype(int).reshape(shape)
        return Table(data=data, table_index=TableIndex(field_names=tuple(f'f{i}' for i in range(len(doms))),
                                                       field_domains=tuple(tuple(d) for d in doms))), doms
    if label == 'TableF':       # index given as Field objects with plain tuple domains (as test_TableIndex does)
        data = vals.astype(int).reshape(shape)
        fields = [Field(f'g{i}', tuple(d)) for i, d in enumerate(doms)]
        return Table(data=data, table_index=TableIndex(fields=fields)), doms
    data = vals.reshape(shape).copy()
    if label == 'ProbabilityTable':
        return ProbabilityTable(data=data, table_index=TableIndex(field_names=tuple(f'p{i}' for i in range(len(doms))),
                                                                  field_domains=tuple(list(d) for d in doms))), doms
    if label == 'StateTable':
        return StateTable.from_state_list(state_list=tuple(doms[0]), data=data), doms
    if label == 'StateTable.from_dict':
        return StateTable.from_dict({s: float(data[i]) for i, s in enumerate(doms[0])}), doms
    if label == 'StateActionTable':
        return StateActionTable.from_state_action_lists(state_list=tuple(doms[0]), action_list=list(doms[1]), data=data), doms
    if label == 'StateActionTable.from_dict':
        d = {s: {a: float(data[i, j]) for j, a in enumerate(doms[1])} for i, s in enumerate(doms[0])}
        t = StateActionTable.from_dict(d, default_value=-1.0)
        # from_dict orders the actions by a set: take the order it reports, after checking it is a permutation
        al = tuple(t.action_list)
        if len(al) != len(doms[1]) or {a: 0 for a in al}.keys() != {a: 0 for a in doms[1]}.keys():
            return t, None
        return t, (doms[0], al)
    if label == 'StateActionTable.from_dict(ragged)':
        # the last state does not list the last action (the shape Policy.evaluate_on produces): that cell holds default_value
        d = {s: {a: float(data[i, j]) for j, a in enumerate(doms[1])} for i, s in enumerate(doms[0])}
        if len(doms[0]) >= 2:
            del d[doms[0][-1]][doms[1][-1]]
            vals.reshape(shape)[-1, -1] = -1.0
        t = StateActionTable.from_dict(d, default_value=-1.0)
        al = tuple(t.action_list)
        if len(al) != len(doms[1]) or {a: 0 for a in al}.keys() != {a: 0 for a in doms[1]}.keys():
            return t, None
        return t, (doms[0], al)
    if label == 'StateNextStateTable':
        from msdm.core.mdp.tables import StateNextStateTable
        return StateNextStateTable(data=data, table_index=TableIndex(field_names=('state', 'next_state'), field_domains=doms)), doms
    if label == 'TabularPolicy':
        return TabularPolicy.from_state_action_lists(state_list=list(doms[0]), action_list=tuple(doms[1]), data=data), doms
    if label == 'StateActionNextStateTable':
        if tuple(doms[2]) == tuple(doms[0]) and all(type(a) is type(b) for a, b in zip(doms[0], doms[2])):
            return StateActionNextStateTable.from_state_action_lists(state_list=tuple(doms[0]), action_list=tuple(doms[1]),
                                                                     data=data), doms
        return StateActionNextStateTable(data=data, table_index=TableIndex(field_names=names, field_domains=doms)), doms
    raise HarnessError(f'unknown class label {label}')


# ----------------------------------------------------------------------------------------------
#  comparison of an implementation value with the reference
# ----------------------------------------------------------------------------------------------
class _Raised:
    __slots__ = ('exc',)

    def __init__(self, exc):
        self.exc = exc


def lookup(obj, key):
    try:
        return obj[key]
    except (KeyboardInterrupt, SystemExit, MemoryError, GeneratorExit):
        raise
    except BaseException as e:          # DomainError derives from BaseException
        return _Raised(e)


def call(fn, *a, **kw):
    try:
        return fn(*a, **kw)
    except (KeyboardInterrupt, SystemExit, MemoryError, GeneratorExit):
        raise
    except BaseException as e:
        return _Raised(e)


def eq(x, y):
    """x == y as a plain bool; an implementation value that is not a plain scalar / hashable (e.g. a Table
    where a number was expected, whose == raises) is simply not equal."""
    if type(x) is _Raised:
        return False
    try:
        res = (x == y)
        return bool(res) if np.ndim(res) == 0 else False
    except (KeyboardInterrupt, SystemExit, MemoryError, GeneratorExit):
        raise
    except BaseException:
        return False


def seq_equal(a, b):
    try:
        a, b = list(a), list(b)
    except TypeError:
        return False
    return len(a) == len(b) and all(eq(x, y) for x, y in zip(a, b))


def describe(x):
    from msdm.core.table.table import AbstractTable
    if isinstance(x, _Raised):
        return 'raised ' + type(x.exc).__name__ + ': ' + str(x.exc)[:80]
    if isinstance(x, AbstractTable):
        try:
            return f'{type(x).__name__}(domains={[list(d) for d in x.table_index.field_domains]!r}, data={np.asarray(x).tolist()!r})'
        except Exception as e:          # noqa
            return f'{type(x).__name__}(<{e!r}>)'
    return repr(x)


def describe_ref(payload, vals):
    if isinstance(payload, R):
        return f'table(domains={[list(d) for d in payload.doms]!r}, data={vals[payload.ids].tolist()!r})'
    return repr(vals[payload].item())


def value_mismatch(res, payload, vals, deep):
    """None if the implementation value `res` is exactly the reference value, else a short reason."""
    from msdm.core.table.table import AbstractTable
    if isinstance(payload, R):
        if not isinstance(res, AbstractTable):
            return 'expected a sub-table'
        keys = call(lambda: list(res.keys()))
        if isinstance(keys, _Raised) or not seq_equal(keys, payload.doms[0]):
            return 'keys() is not the outermost domain in order'
        ln = call(len, res)
        if isinstance(ln, _Raised) or ln != len(payload.doms[0]):
            return 'len() is not the size of the outermost domain'
        fd = call(lambda: [list(d) for d in res.table_index.field_domains])
        if isinstance(fd, _Raised) or len(fd) != len(payload.doms) or \
                not all(seq_equal(a, b) for a, b in zip(fd, payload.doms)):
            return 'remaining field domains differ'
        arr = call(np.asarray, res)
        exp = vals[payload.ids]
        if isinstance(arr, _Raised) or arr.shape != exp.shape or not np.array_equal(arr, exp):
            return 'cells differ'
        if deep:
            for k in payload.doms[0]:
                why = value_mismatch(lookup(res, k), select(payload, [('fix', k)]), vals, True)
                if why:
                    return f'[{k!r}]: {why}'
        return None
    if isinstance(res, (_Raised, AbstractTable)) or not isinstance(res, (np.generic, int, float)) or np.ndim(res) != 0:
        return 'expected a single cell'
    if not eq(res, vals[payload]):
        return 'wrong cell'
    return None


class _RecordingRng:
    """Stands in for the `rng=` argument of sample(): records what the distribution hands to
    choices() (no randomness involved)."""
    def __init__(self):
        self.calls = []

    def choices(self, population, weights=None, k=1, cum_weights=None):
        self.calls.append((list(population), list(weights) if weights is not None else None, k))
        return [population[0]] * k


def dist_mismatch(res, row, vals, full=True, obs=None):
    """`row` is a 1-field R that is a row of a probability table: res must be a distribution whose
    events and probabilities are exactly the row's domain and entries.  full=False: only type, support and
    prob() over the domain (used when the same row was already put through the whole battery)."""
    from msdm.core.distributions import Distribution
    dom = list(row.doms[0])
    ent = [vals[row.nd[e]] for e in dom]
    if not isinstance(res, Distribution):
        return f'row is a {type(res).__name__}, not a Distribution'
    sup = call(lambda: list(res.support))
    if isinstance(sup, _Raised) or not seq_equal(sup, dom):
        return f'support {describe(sup)} is not the row domain'
    pr = [call(res.prob, e) for e in dom]
    if not seq_equal(pr, ent):
        return f'prob() over the domain gives {[describe(p) for p in pr]}'
    if not full:
        return None
    its = call(lambda: list(res.items()))
    if isinstance(its, _Raised) or len(its) != len(dom) or \
            not all(isinstance(p, tuple) and len(p) == 2 and eq(p[0], e) and eq(p[1], v) for p, e, v in zip(its, dom, ent)):
        return f'items() gives {describe(its)}'
    ln = call(len, res)
    if isinstance(ln, _Raised) or ln != len(dom):
        return f'len() gives {describe(ln)}'
    probs = call(lambda: list(res.probs))
    if isinstance(probs, _Raised) or not seq_equal(probs, ent):
        return f'probs gives {describe(probs)}'
    rng = _RecordingRng()
    s = call(res.sample, rng=rng)
    if isinstance(s, _Raised):
        return f'sample() {describe(s)}'
    if len(dom) == 1:
        if not eq(s, dom[0]) or rng.calls:
            return f'sample() of a one-event row gives {s!r}'
    else:
        if len(rng.calls) != 1 or not seq_equal(rng.calls[0][0], dom) or rng.calls[0][1] is None \
                or not seq_equal(rng.calls[0][1], ent) or not eq(s, dom[0]):
            return f'sample() draws from {rng.calls!r}'
    dd = row.dd[0]
    for a in KEYPOOL:
        p = call(res.prob, a)
        if member(dd, a):
            if not eq(p, vals[row.nd[a]]):
                return f'prob({a!r}) gives {describe(p)}'
        elif not isinstance(a, tuple):
            # an event outside the row's domain: 0 or an error, never a cell
            if not isinstance(p, _Raised) and not eq(p, 0):
                return f'prob({a!r}) of a foreign event gives {describe(p)}'
        elif obs is not None and not isinstance(p, _Raised) and not eq(p, 0):
            # a tuple that is not an event but resolves field-wise as a table key, e.g. prob((0,)) == prob(0):
            # the table half of the statement makes t[(k,)] the cell of k, so this is only counted
            obs.count('observed:prob_of_tuple_non_event_resolved_as_table_key')
    return None


# ----------------------------------------------------------------------------------------------
#  the check
# ----------------------------------------------------------------------------------------------
def nontrivial_reason(doms):
    n = len(doms)
    dd = [{e: e for e in d} for d in doms]
    why = []
    for e in doms[0]:
        if isinstance(e, tuple) and len(e) <= n and all(member(dd[i], c) for i, c in enumerate(e)):
            why.append('outer_tuple_is_fieldwise_key')
            break
    for i in range(1, n):
        for e in doms[i]:
            if isinstance(e, tuple) and (all(member(dd[i], c) for c in e)
                                         or (len(e) <= n - i and all(member(dd[i + j], c) for j, c in enumerate(e)))):
                why.append('inner_tuple_collides')
                break
    # a domain element for which the statement's pool holds an equal but non-identical key (1 / True / 1.0)
    if any(member(dd[i], 1) for i in range(n)):
        why.append('equal_not_identical_pool_key')
    return why


def _is_mdp_table(obj):
    from msdm.core.mdp.tables import StateTable
    return isinstance(obj, StateTable)


def run_program(r, item, label, table, ref0, vals, tag, steps, refs, state):
    """Apply t[steps[0]][steps[1]]... on the real table, compare every step with the reference
    classification `refs` (computed once per program, shared by the classes)."""
    from msdm.core.mdp.tables import StateActionIndexError
    obj = table
    prob = label in PROB
    for si, key in enumerate(steps):
        cls = refs[si]
        kind = cls[0]
        res = lookup(obj, key)
        r.count('transitions')
        state['n'] += 1
        if kind == VAL:
            payload = cls[1]
            why = value_mismatch(res, payload, vals, deep=(tag in ('list', 'chain_list', 'bare') or state['n'] % 7 == 0))
            if why is None and prob and isinstance(payload, R) and payload.is_row():
                rk = (tag, type(res), tuple(payload.nd.values()))
                first = rk not in state['rows']
                state['rows'].add(rk)
                r.count('rows_checked_as_distributions')
                why = dist_mismatch(res, payload, vals, full=first, obs=r)
            if why:
                bad(r, item, f'{tag}:{"wrong_value" if not isinstance(res, _Raised) else "unexpected_error"}',
                    label, ref0, steps, si, why, describe_ref(payload, vals), res, state)
                return
            outcome(r, state, (tag, 'val', type(res).__name__))
            obj = res
            if not isinstance(payload, R):
                return              # reached a cell; generated chains never continue past one
        elif kind in (RAISE, RAISE_ANY):
            if not isinstance(res, _Raised):
                bad(r, item, f'{tag}:foreign_key_returned_a_value', label, ref0, steps, si, cls[1], 'an error', res, state)
                return
            if kind == RAISE and _is_mdp_table(obj) and not isinstance(res.exc, StateActionIndexError):
                bad(r, item, f'{tag}:wrong_error_type', label, ref0, steps, si, cls[1],
                    'StateActionIndexError', res, state)
                return
            r.count('foreign_lookups_raised')
            outcome(r, state, (tag, kind, type(res.exc).__name__, _is_mdp_table(obj)))
            return
        else:
            r.count('unspecified:' + cls[1])
            outcome(r, state, (tag, 'unspec', cls[1],
                               type(res.exc).__name__ if isinstance(res, _Raised) else type(res).__name__))
            if len(cls) > 2 and not isinstance(res, _Raised):
                # observation only: does a list inside a tuple behave like the numpy-style restriction?
                if value_mismatch(res, cls[2], vals, False):
                    r.count('observed:list_in_tuple_differs_from_restriction')
                else:
                    r.count('observed:list_in_tuple_equals_restriction')
            return


def outcome(r, state, key):
    if key not in state['out']:
        state['out'].add(key)
        r.outcome(key)


def bad(r, item, kind, label, ref0, steps, si, why, expected, got, state):
    state['bad'] += 1
    if state['bad'] > 6:
        r.count('violations_suppressed_same_item')
        return
    expr = 't' + ''.join(f'[{k!r}]' for k in steps[:si + 1])
    r.violation(kind, {'class': label, 'domains': [repr(d) for d in ref0.doms], 'expr': expr,
                       'why': why, 'expected': expected, 'got': describe(got)}, item,
                finding=attribute(kind, label, ref0.doms, steps, si))


def attribute(kind, label, doms, steps, si):
    """Class predicates of genuine defects recorded in known_findings.json (none so far)."""
    return None


def check_get(r, item, label, table, ref0, vals, state):
    from msdm.core.mdp.tables import StateActionIndexError
    sentinel = object()
    keys = list(ref0.doms[0]) + list(product(*ref0.doms)) + list(KEYPOOL) \
        + [tuple(d[0] for d in ref0.doms[:-1]) + (f,) for f in POOL]
    nbare = len(ref0.doms[0])
    for ki, key in enumerate(keys):
        cls = classify(ref0, key)
        res = call(table.get, key, sentinel)
        # get(key) without a default: only for the bare keys (elements and pool keys)
        two = ki < nbare or not isinstance(key, tuple)
        res_none = call(table.get, key) if two else (res if cls[0] == VAL else (None if res is sentinel else res))
        r.count('transitions', 2 if two else 1)
        steps = (key,)
        if cls[0] == VAL:
            why = value_mismatch(res, cls[1], vals, False) or (two and value_mismatch(res_none, cls[1], vals, False))
            if why:
                bad(r, item, 'get:wrong_value', label, ref0, steps, 0, 'get(key, default): ' + why,
                    describe_ref(cls[1], vals), res, state)
        elif cls[0] in (RAISE, RAISE_ANY):
            for got, dflt in ((res, sentinel), (res_none, None)):
                if isinstance(got, _Raised):
                    if cls[0] == RAISE and _is_mdp_table(table) and not isinstance(got.exc, StateActionIndexError):
                        bad(r, item, 'get:wrong_error_type', label, ref0, steps, 0, 'get(key, default) ' + cls[1],
                            'the default or StateActionIndexError', got, state)
                    outcome(r, state, ('get', 'raised', type(got.exc).__name__))
                elif got is not dflt:
                    bad(r, item, 'get:foreign_key_returned_a_value', label, ref0, steps, 0, 'get(key, default) ' + cls[1],
                        'the default or an error', got, state)
                else:
                    outcome(r, state, ('get', 'default'))
        else:
            r.count('unspecified:get:' + cls[1])


def check_iteration(r, item, label, table, ref0, vals, state):
    d0 = ref0.doms[0]
    for name, fn in (('keys', lambda: list(table.keys())), ('iter', lambda: list(iter(table))),
                     ('items', lambda: [k for k, _ in table.items()])):
        got = call(fn)
        r.count('transitions')
        if isinstance(got, _Raised) or not seq_equal(got, d0):
            bad(r, item, f'iteration:{name}', label, ref0, (), -1, f'{name}() is not the outermost domain in order',
                repr(list(d0)), got, state)
    ln = call(len, table)
    r.count('transitions')
    if isinstance(ln, _Raised) or ln != len(d0):
        bad(r, item, 'iteration:len', label, ref0, (), -1, 'len() is not the size of the outermost domain', len(d0), ln, state)
    for name, fn in (('items', lambda: [v for _, v in table.items()]), ('values', lambda: list(table.values()))):
        got = call(fn)
        r.count('transitions')
        if isinstance(got, _Raised) or len(got) != len(d0):
            bad(r, item, f'iteration:{name}', label, ref0, (), -1, f'{name}() has the wrong length', len(d0), got, state)
            continue
        for k, v in zip(d0, got):
            why = value_mismatch(v, ref0.nd[k] if len(ref0.doms) == 1 else select(ref0, [('fix', k)]), vals, True)
            if why:
                bad(r, item, f'iteration:{name}', label, ref0, (k,), 0, f'{name}() value for {k!r}: {why}',
                    describe_ref(ref0.nd[k] if len(ref0.doms) == 1 else select(ref0, [('fix', k)]), vals), v, state)
                break


def check_action_dist(r, item, label, table, ref0, vals, state):
    from msdm.core.mdp.tables import StateActionIndexError
    for s in KEYPOOL:
        cls = classify(ref0, s)
        res = call(table.action_dist, s)
        r.count('transitions')
        if cls[0] == VAL and isinstance(cls[1], R) and cls[1].is_row():
            why = 'raised' if isinstance(res, _Raised) else dist_mismatch(res, cls[1], vals)
            if why:
                bad(r, item, 'action_dist:wrong_distribution', label, ref0, (s,), 0, f'action_dist({s!r}): {why}',
                    describe_ref(cls[1], vals), res, state)
        elif cls[0] == RAISE:
            if not isinstance(res, _Raised):
                bad(r, item, 'action_dist:foreign_state_returned_a_value', label, ref0, (s,), 0,
                    f'action_dist({s!r})', 'StateActionIndexError', res, state)
            elif not isinstance(res.exc, StateActionIndexError):
                bad(r, item, 'action_dist:wrong_error_type', label, ref0, (s,), 0,
                    f'action_dist({s!r})', 'StateActionIndexError', res, state)
        else:
            r.count('unspecified:action_dist')


def check(item, tier):
    try:
        return _check(item, tier)
    except HarnessError:
        raise
    except Exception as e:      # an exception escaping here is a gap of the harness, never a verdict
        import traceback
        raise HarnessError(f'unexpected {e!r} while checking {item!r}: {traceback.format_exc()[-600:]}') from e


def _check(item, tier):
    r = Res()
    kind, doms = item
    if kind != 'tbl':
        raise HarnessError(f'unknown item {item!r}')
    doms = tuple(tuple(d) for d in doms)
    n = len(doms)
    for d in doms:
        if len(set(d)) != len(d) or not d:
            raise HarnessError(f'domain {d!r} is not a set under ==')
    progs = gen_programs(doms, tier)
    nt = nontrivial_reason(doms)
    cache = {}
    outs = set()
    for label in CLASSES[n]:
        prob = label in PROB
        vals = cell_values(doms, prob)
        built = call(build_table, label, doms, vals)
        if isinstance(built, _Raised):
            if isinstance(built.exc, HarnessError):
                raise built.exc
            r.violation('construction_failed', {'class': label, 'domains': [repr(d) for d in doms],
                                                'error': describe(built)}, item)
            continue
        table, eff_doms = built
        r.count('states')
        r.count('tables:' + label)
        if eff_doms is None:
            r.violation('from_dict:action_list_is_not_the_action_set',
                        {'class': label, 'domains': [repr(d) for d in doms], 'got': describe(table)}, item)
            continue
        eff_doms = tuple(tuple(d) for d in eff_doms)
        if eff_doms != doms or any(type(a) is not type(b) for da, db in zip(eff_doms, doms) for a, b in zip(da, db)):
            # from_dict reported another action order: re-map the cell values onto that order
            perm = [doms[1].index(a) for a in eff_doms[1]]
            vals_eff = vals.reshape(tuple(len(d) for d in doms))[:, perm].reshape(-1).copy()
            ref0 = full_ref(eff_doms)
            eprogs = gen_programs(eff_doms, tier)
            ecache = {}
        else:
            vals_eff, ref0, eprogs = vals, cache.setdefault('ref0', full_ref(doms)), progs
            ecache = cache.setdefault('cls', {})
        if nt:
            r.nontriv((label, doms))
            for w in nt:
                r.count('nontrivial:' + w)
        state = {'bad': 0, 'n': 0, 'out': outs, 'rows': set()}
        light = label in LIGHT
        check_iteration(r, item, label, table, ref0, vals_eff, state)
        for pi, (tag, steps, core) in enumerate(eprogs):
            if light and not core:
                continue
            refs = ecache.get(pi)
            if refs is None:
                refs = []
                cur = ref0
                for key in steps:
                    c = classify(cur, key)
                    refs.append(c)
                    if c[0] != VAL or not isinstance(c[1], R):
                        break
                    cur = c[1]
                ecache[pi] = refs
            run_program(r, item, label, table, ref0, vals_eff, tag, steps[:len(refs)], refs, state)
        check_get(r, item, label, table, ref0, vals_eff, state)
        if label == 'TabularPolicy':
            check_action_dist(r, item, label, table, ref0, vals_eff, state)
        if nt and state['bad'] == 0 and len(r.samples) == 0 and n >= 2 and 'outer_tuple_is_fieldwise_key' in nt \
                and label == 'Table':
            e = next(e for e in doms[0] if isinstance(e, tuple) and len(e) <= n
                     and all(member({x: 0 for x in doms[i]}, c) for i, c in enumerate(e)))
            r.sample({'class': label, 'domains': [repr(d) for d in doms], 'key': repr(e),
                      'reference': describe_ref(classify(ref0, e)[1], vals_eff), 'implementation': describe(lookup(table, e)),
                      'note': 'the tuple is an element of the outermost domain AND a field-wise key; the element wins'})
    r.count('evaluations', len(progs))
    if n >= 2:
        shared_domain_leg(r, item, doms, progs, tier)
    return r


def shared_domain_leg(r, item, doms, progs, tier):
    """Two tables over the SAME outer domain object (as every table derived from one MDP shares mdp.state_list) whose inner
    domains are ordered differently: the same programs run on both, alternating, each against its own reference -- what one
    table resolved must not leak into the other."""
    from msdm.core.table import Table, TableIndex, domaintuple
    from msdm.core.mdp.tables import StateActionTable
    from msdm.core.mdp.tabularpolicy import TabularPolicy
    n = len(doms)
    doms_b = (doms[0],) + tuple(tuple(d[1:]) + tuple(d[:1]) for d in doms[1:])
    if doms_b == doms:
        return
    labels = ['Table'] + (['StateActionTable', 'TabularPolicy'] if n == 2 else [])
    refs_ab = (full_ref(doms), full_ref(doms_b))
    cache = ({}, {})
    for label in labels:
        shared = domaintuple(doms[0])
        pair = []
        for dd in (doms, doms_b):
            vals = cell_values(dd, label in PROB)
            shape = tuple(len(d) for d in dd)
            try:
                if label == 'Table':
                    t = Table(data=vals.astype(int).reshape(shape),
                              table_index=TableIndex(field_names=tuple(f'f{i}' for i in range(n)), field_domains=(shared,) + dd[1:]))
                elif label == 'StateActionTable':
                    t = StateActionTable.from_state_action_lists(state_list=shared, action_list=dd[1], data=vals.reshape(shape).copy())
                else:
                    t = TabularPolicy.from_state_action_lists(state_list=shared, action_list=dd[1], data=vals.reshape(shape).copy())
            except Exception as e:
                r.violation('construction_failed', {'class': label + ' (shared outer domain)', 'domains': [repr(d) for d in dd],
                                                    'error': repr(e)[:200]}, item)
                return
            pair.append((t, vals))
        r.count('states', 2)
        r.count('tables_sharing_outer_domain', 2)
        state = {'bad': 0, 'n': 0, 'out': set(), 'rows': set()}
        for pi, (tag, steps, core) in enumerate(progs):
            if not core and tier == 'quick' and pi % 3:
                continue
            for w in (0, 1) if pi % 2 == 0 else (1, 0):
                refs = cache[w].get(pi)
                if refs is None:
                    refs = []
                    cur = refs_ab[w]
                    for key in steps:
                        c = classify(cur, key)
                        refs.append(c)
                        if c[0] != VAL or not isinstance(c[1], R):
                            break
                        cur = c[1]
                    cache[w][pi] = refs
                run_program(r, item, label + ' (shared outer domain, table %s)' % 'AB'[w], pair[w][0], refs_ab[w], pair[w][1], tag,
                            steps[:len(refs)], refs, state)


def replay(rec):
    return check(item_from_record(rec), rec.get('tier', 'quick'))
