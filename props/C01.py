"""C01 -- value iteration (vectorised + dict) and policy iteration are optimal.

Engine E1: bounded-exhaustive enumeration of small MDPs, each planned by the real planners and
compared with an exact rational reference (max over all deterministic policies)."""
import math
import warnings
from fractions import Fraction as F

import numpy as np

from mc.run import Res, item_from_record
from mc import refmdp
from mc.refmdp import Spec, NEG_INF
from mc import build

ID = 'C01'
RULE = ("Cartesian enumeration of MDP specs (states x action sets {a},{b},{a,b} x outcome distributions "
        "{Dirac, 1/2-1/2(, 1/4-3/4)} x rewards x explicit absorbing sets x initial distributions x discount) "
        "x labelling/representation variants; each spec is planned by ValueIteration(vectorized), "
        "ValueIteration(dict), PolicyIteration.plan_on and batch_plan_on and compared with the exact optimum. "
        "states = distinct (spec, variant) inputs; transitions = planner runs compared with the oracle. "
        "Non-trivial = some non-absorbing, non-trap state has >= 2 available actions with different exact Q*.")
ASSUMPTIONS = [
    "probabilities in {0,1/4,1/2,3/4,1}, rewards in {-2,-1,0,1}, discount in {1/2,9/10,1}; values outside the alphabet are not covered",
    "tolerance: eps/(1-gamma) discounted, eps*(1+max expected transient steps over all deterministic policies) undiscounted, +1e-9 float slack; PI 1e-7",
    "exact tie-set oracle only where eps=1e-10 (VI) or PI; elsewhere support must be a subset of the exact argmax set",
    "undiscounted inputs where the exact optimum differs from the 'trap states are worth 0' semantics are attributed to known finding K1 and still compared with the trap-zero reference",
]
BUDGET = {'quick': 900, 'thorough': 7200}
CHUNK = {'quick': 64, 'thorough': 64}

VARIANTS = [
    ('int', 'ab', False), ('rev', 'rev', False), ('str', 'ab', True), ('mix', 'mix', False),
    ('tup', 'rev', True), ('fd', 'fd', False), ('falsy', 'falsy', False),
]
UNDEF = [0, -7, float('-inf')]
EPS_OTHER = [1e-3, 1e-5]


def bounds(tier):
    if tier == 'quick':
        return {'n_states': '1..2 full Cartesian', 'dist_level': 1, 'rewards': '{-1,0,1} (<=0 when undiscounted)',
                'gamma': ['1/2', '9/10', '1'], 'variants': 'rotating (1 per spec)', 'eps': '1e-10 + rotating {1e-3,1e-5}',
                'plus': 'n=3 chain family'}
    return {'n_states': 'build.thorough_mdps(): n=2 Cartesian (rewards {-2..1}; dist level 2), n=3 with one two-action state, n=3,4 chain families (~6e5 specs)',
            'gamma': ['1/2', '9/10', '1'], 'variants': 'rotating', 'eps': '1e-10 + rotating {1e-3,1e-5}'}


def spec_items(tier):
    AS = [('a',), ('b',), ('a', 'b')]
    R3 = [F(-1), F(0), F(1)]
    R4 = [F(-2), F(-1), F(0), F(1)]
    G = [F(1, 2), F(9, 10), F(1)]
    yield from build.enum_mdps(1, AS, 0, R3, [(), (0,)], build.INIT_MENU[1], G)
    # undiscounted value iteration needs ~1/p sweeps through a probability-p exit: tiny probabilities only when discounted
    yield from (it for it in build.edge_mdps() if it[5] > 0 and (it[5] < 1 or not build.has_tiny_probability(it)))
    # an explicitly absorbing state with a declared exit to a state that is reachable only through it (K4 class when the
    # state list is inferred; a perfectly ordinary problem when the lists are given)
    one = F(1)
    for g in (F(9, 10), F(1)):
        for exit_d in (((2, one),), ((1, F(1, 2)), (2, F(1, 2)))):
            for back in (2, 0):
                for two in (False, True):
                    row0 = (('a', ((1, one),), F(-1)),) + ((('b', ((0, F(1, 2)), (1, F(1, 2))), F(-1)),) if two else ())
                    yield ('mdp', 3, (row0, (('a', exit_d, F(0)),), (('a', ((back, one),), F(-1) if back == 0 else F(0)),)), (1,), ((0, one),), g)
    # zero-probability entries in the initial distribution: for a state that never reaches an absorbing state (placeholder,
    # possibly -inf) and for a state nothing else leads to (not part of an inferred state list)
    for g in (F(9, 10), F(1)):
        T = ((('a', ((1, one),), F(-1)), ('b', ((2, F(1, 2)), (1, F(1, 2))), F(0))), (('a', ((1, one),), F(0)),),
             (('a', ((2, one),), F(-1)),), (('a', ((1, one),), F(-3)),))
        yield ('mdp', 4, T, (1,), ((0, one), (2, F(0))), g)
        yield ('mdp', 4, T, (1,), ((0, F(1, 2)), (3, F(0)), (1, F(1, 2))), g)
    # values of ~1e4 with a real preference of 0.05 (relative 5e-6) between the two actions: below the resolution of the planners'
    # closeness test (known finding K7)
    for g, ra, rb in ((F(99, 100), F(-100), F(-2001, 20)), (F(99, 100), F(-50), F(-1001, 20))):
        T = ((('a', ((0, one),), ra), ('b', ((0, one),), rb)), (('a', ((1, one),), F(0)),))
        yield ('mdp', 2, T, (1,), ((0, one),), g)
        T = ((('a', ((0, F(1, 2)), (1, F(1, 2))), ra), ('b', ((0, F(1, 2)), (1, F(1, 2))), rb)), (('a', ((1, one),), F(0)),))
        yield ('mdp', 2, T, (), ((0, one),), g)
    # three listed actions, states that offer only some of them -- among them states that can never reach an absorbing state
    for g in (F(9, 10), F(1)):
        for acts2 in (('a', 'b'), ('c',), ('a', 'c')):
            for r2 in (F(-1), F(0)):
                row0 = (('a', ((1, one),), F(-1)), ('b', ((2, F(1, 2)), (1, F(1, 2))), F(-1)), ('c', ((2, one),), F(-2)))
                row1 = (('a', ((1, one),), F(0)),)
                row2 = tuple((a, ((2, one),), r2) for a in acts2)
                yield ('mdp', 3, (row0, row1, row2), (1,), ((0, F(1, 2)), (2, F(1, 2))), g)
    if tier == 'quick':
        yield from build.enum_mdps(2, AS, 1, R3, [(), (1,)], [build.INIT_MENU[2][0], build.INIT_MENU[2][2]],
                                   [F(9, 10), F(1)])
        yield from build.enum_mdps(2, [('a',), ('a', 'b')], 1, [F(-1), F(1)], [()], [build.INIT_MENU[2][1]], [F(1, 2)])
        yield from build.chain_mdps(3, [F(9, 10), F(1)], [F(-1), F(0)])
    else:
        yield from build.thorough_mdps()


def items(tier, seed):
    for i, it in enumerate(spec_items(tier)):
        if i % 11 == 3 and it[1] <= 3:
            # every eleventh spec also lists an outcome with probability 0: an existing state, a state nothing else leads to, or an
            # entry of the initial distribution (such entries are no outcomes: nothing may depend on them)
            it = build.with_zero_entry(it, ('inside', 'outside', 'zero_init')[(i // 11 + seed) % 3])[0]
        yield (it, (i + seed) % len(VARIANTS), (i // 7 + seed) % len(UNDEF), (i // 3 + seed) % 2, i % 5 == 0)


def _close(a, b, tol):
    if a == b:
        return True
    if isinstance(b, float) and math.isinf(b) or isinstance(a, float) and math.isinf(a):
        return False
    return abs(a - float(b)) <= tol + 1e-9 * max(1.0, abs(float(b)))


def check_result(res, name, mdp, spec, ref, tol, exact_ties, undef, r, item, slack_eval):
    """Compare one planner result with the reference.  ref = dict(V, Q, V0, Q0, k1) where V0/Q0 is the
    trap-zero reference the implementation is expected to match and V/Q the true optimum."""
    A = spec.absorbing()
    trap = spec.trap()
    V0, Q0 = ref['V0'], ref['Q0']
    sl, al = mdp.sl, mdp.al

    def bad(kind, detail):
        r.violation(f'{name}:{kind}', detail, item)

    if not res.converged:
        bad('not_converged', {'iterations': res.iterations})
        return None
    sv, av, pol = res.state_value, res.action_value, res.policy
    reported = {}
    pi = {}
    for s in range(spec.n):
        ls = sl(s)
        if ls not in mdp.state_list:
            continue
        v = float(sv[ls])
        reported[s] = v
        if s in A:
            if v != 0:
                bad('absorbing_value_nonzero', {'s': s, 'v': v})
        elif s in trap:
            if not (v == undef):
                bad('placeholder', {'s': s, 'v': v, 'expected': undef})
        else:
            if not _close(v, V0[s], tol):
                bad('state_value', {'s': s, 'v': v, 'expected': V0[s], 'tol': tol})
        # action values on available actions
        if s not in trap:
            for a in spec.acts[s]:
                q = float(av[ls][al(a)])
                exp = F(0) if s in A else Q0[s, a]
                if not _close(q, exp, tol):
                    bad('action_value', {'s': s, 'a': a, 'q': q, 'expected': exp, 'tol': tol})
        # policy
        row = {a: float(pol[ls][al(a)]) for a in mdp.a_of.values() if al(a) in pol.action_list}
        pi[s] = {a: p for a, p in row.items() if p != 0}
        if s in A:
            continue
        tot = sum(row.values())
        if abs(tot - 1) > 1e-9 or any(p < 0 for p in row.values()):
            bad('policy_not_distribution', {'s': s, 'row': row})
            continue
        supp = {a for a, p in row.items() if p > 0}
        if not supp <= set(spec.acts[s]):
            bad('policy_unavailable_action', {'s': s, 'row': row, 'available': spec.acts[s], 'trap': s in trap})
            continue
        if s in trap:
            continue
        qs = {a: Q0[s, a] for a in spec.acts[s]}
        qmax = max(qs.values())
        argmax = {a for a, q in qs.items() if q == qmax}
        gaps = [qmax - q for q in qs.values() if q != qmax]
        mingap = min(gaps) if gaps else None
        near = mingap is not None and mingap != float('inf') and float(mingap) <= 4 * tol + 1e-4 * (1 + abs(float(qmax)))
        if near:
            r.count('skipped_near_tie')
            continue
        if not supp <= argmax:
            bad('policy_suboptimal_action', {'s': s, 'row': row, 'argmax': sorted(argmax), 'Q': qs})
        elif exact_ties:
            if supp != argmax:
                bad('policy_tie_set', {'s': s, 'row': row, 'argmax': sorted(argmax), 'Q': qs})
            elif any(abs(row[a] - 1 / len(argmax)) > 1e-9 for a in argmax):
                bad('policy_not_uniform', {'s': s, 'row': row})
        r.count('tie_sets_checked')
    # initial value
    iv = float(res.initial_value)
    exp_iv = sum(reported[s] * float(p) for s, p in spec.init.items() if p > 0)      # zero-probability entries do not count
    if not (iv == exp_iv or abs(iv - exp_iv) <= 1e-12 * max(1, abs(exp_iv))):
        bad('initial_value', {'reported': iv, 'expected': exp_iv})
    # exact evaluation of the returned policy (trap-zero semantics, as the property puts the
    # placeholder at trap states)
    try:
        pif = {s: ({a: F(p).limit_denominator(64) for a, p in pi[s].items()} if s in pi else {}) for s in range(spec.n)}
        if all((s in A) or (s in trap) or (s not in reported) or pif[s] for s in range(spec.n)):
            for s in range(spec.n):
                if not pif[s] and spec.acts[s]:
                    pif[s] = {spec.acts[s][0]: F(1)}
            Vpi, _ = refmdp.eval_policy(spec, pif, zero=trap)
            for s in range(spec.n):
                if s in reported and s not in A and s not in trap:
                    if Vpi[s] == NEG_INF or float(V0[s]) - float(Vpi[s]) > slack_eval + 1e-9:
                        bad('policy_return_suboptimal', {'s': s, 'Vpi': Vpi[s], 'Vstar': V0[s], 'pi': pif})
    except ValueError:
        pass
    return reported


K7_KINDS = ('state_value', 'action_value', 'policy_tie_set', 'policy_return_suboptimal', 'initial_value', 'batch_differs_from_single')


def near_tie_class(spec):
    """K7 class predicate, decided exactly: at some non-absorbing state two available actions have DIFFERENT exact optimal
    action values that numpy's default closeness test (|x - y| <= 1e-8 + 1e-5 |y|, what the planners use to collect the
    maximising actions) takes for equal -- a real preference the planners cannot see."""
    try:
        V, Q = refmdp.optimal(spec, zero=spec.trap())
    except Exception:
        return False
    A = spec.absorbing()
    for s in range(spec.n):
        if s in A or s in spec.trap():
            continue
        qs = [Q[s, a] for a in spec.acts[s] if Q[s, a] != NEG_INF]
        for x in qs:
            for y in qs:
                if x != y and abs(float(x) - float(y)) <= 2 * (1e-8 + 1e-5 * abs(float(y))):
                    return True
    return False


def check(item, tier):
    r0 = _check_inner(item, tier)
    if not any(v['finding'] is None for v in r0.violations):
        return r0
    if not near_tie_class(Spec(item[0])):
        return r0
    r = Res()
    for k, v in r0.counters.items():
        if k != 'violations_new':
            r.count(k, v)
    r.samples, r.nontrivial, r.outcomes, r.notes = r0.samples, r0.nontrivial, r0.outcomes, r0.notes
    for v in r0.violations:
        f = v['finding']
        if f is None and v['kind'].split(':')[-1] in K7_KINDS:
            f = 'K7'
        if v['finding'] is None:
            r.violation(v['kind'], v['detail'], v['item'], finding=f)
        else:
            r.violations.append(v)
    return r


def _check_inner(item, tier):
    from msdm.algorithms import ValueIteration, PolicyIteration
    r = Res()
    spec_item, vi, ui, ei, do_batch = item
    spec = Spec(spec_item)
    slabel, alabel, explicit = VARIANTS[vi]
    undef = UNDEF[ui]
    r.count('states')
    if spec.dead_ends() or (spec.gamma == 1 and not spec.rewards_nonpositive()):
        r.count('out_of_scope')
        return r
    trap = spec.trap()
    A = spec.absorbing()
    V0, Q0, nmax = refmdp.optimal(spec, zero=trap, want_steps=True)
    ref = {'V0': V0, 'Q0': Q0}
    # K1: does the true optimum differ from the trap-zero semantics on a non-trap state?
    k1 = False
    if trap:
        try:
            V, Q = refmdp.optimal(spec)
            for s in range(spec.n):
                if s in trap or s in A:
                    continue
                if V[s] != V0[s]:
                    k1 = True
                qs = {a: Q[s, a] for a in spec.acts[s]}
                q0 = {a: Q0[s, a] for a in spec.acts[s]}
                if {a for a in qs if qs[a] == max(qs.values())} != {a for a in q0 if q0[a] == max(q0.values())}:
                    k1 = True
        except ValueError:
            pass
    # non-triviality
    for s in range(spec.n):
        if s not in A and s not in trap and len({Q0[s, a] for a in spec.acts[s]}) >= 2:
            r.nontriv(spec_item)
            break
    g = float(spec.gamma)

    def tol_for(eps):
        return eps / (1 - g) if g < 1 else eps * (1 + float(nmax))

    with warnings.catch_warnings():
        warnings.simplefilter('ignore')
        np.seterr(all='ignore')
        mdp = build.SpecMDP(spec, slabel, alabel, explicit)
        # K4 class (recorded for C06, same root cause): the state list is inferred, reachability does not expand an explicitly
        # absorbing state, and that state has a positive-probability successor reachable only through it -- building the arrays
        # raises KeyError, so no planner can run.  Attributed only if the arrays really raise; everything else is judged as usual.
        if not explicit:
            try:
                listed = {mdp.s_of[ls] for ls in mdp.state_list}
            except Exception:
                listed = None
            if listed is not None and listed in (spec.reachable(expand_initial_absorbing=True), spec.reachable(expand_initial_absorbing=False)) \
                    and any(ns not in listed for s in listed for a in spec.acts[s] for ns in spec.T[s][a]):
                try:
                    mdp.transition_matrix, mdp.reward_matrix
                except KeyError as e:
                    r.violation('k4:arrays_raise_keyerror_for_successor_outside_inferred_state_list', {'error': repr(e)[:200]}, item, finding='K4')
                    return r
        outs = {}
        eps2 = EPS_OTHER[ei]
        runs = [('vi_vec', 'vectorized', 1e-10), ('vi_dict', 'dict', 1e-10),
                ('vi_vec_e', 'vectorized', eps2) if ei == 0 else ('vi_dict_e', 'dict', eps2)]
        # planner objects are reusable: on every other spec the same planner instance first plans a
        # same-shaped "sibling" problem (all rewards lowered by 5), so state kept across calls is exercised
        reuse = (vi + ui + ei) % 2 == 0
        sibling = None
        if reuse:
            sib_T = tuple(tuple((a, d, (tuple(x - 5 for x in rw) if isinstance(rw, tuple) else rw - 5)) for a, d, rw in row)
                          for row in spec_item[2])
            sibling = build.SpecMDP(Spec(spec_item[:2] + (sib_T,) + spec_item[3:]), slabel, alabel, explicit)
            r.count('reused_planner_instances')
        for name, version, eps in runs:
            try:
                planner = ValueIteration(max_iterations=20000, max_residual=eps, undefined_value=undef, _version=version)
                if sibling is not None:
                    planner.plan_on(sibling)
                res = planner.plan_on(mdp)
            except Exception as e:  # noqa
                r.violation(f'{name}:exception', {'error': repr(e)}, item)
                continue
            r.count('transitions')
            tol = tol_for(eps)
            outs[name] = check_result(res, name, mdp, spec, ref, tol, eps <= 1e-10, undef, r, item,
                                      slack_eval=2 * tol * (1 + float(nmax)))
        # agreement between the two VI implementations
        if outs.get('vi_vec') and outs.get('vi_dict'):
            t = 2 * tol_for(1e-10)
            for s, v in outs['vi_vec'].items():
                w = outs['vi_dict'].get(s)
                if w is None or not (v == w or abs(v - w) <= t + 1e-9):
                    r.violation('vi_versions_disagree', {'s': s, 'vec': v, 'dict': w}, item)
        # tiny iteration cap -> converged must be False
        try:
            res = ValueIteration(max_iterations=1, max_residual=1e-10, undefined_value=undef).plan_on(mdp)
            if res.converged and any(abs(float(V0[s])) > 1e-6 for s in range(spec.n) if V0[s] != NEG_INF and s not in trap):
                r.violation('vi_vec:converged_with_cap_1', {'iterations': res.iterations}, item)
        except Exception as e:
            r.violation('vi_vec:exception_cap', {'error': repr(e)}, item)
        # policy iteration
        pi_ok = True
        try:
            planner = PolicyIteration(max_iterations=500, undefined_value=undef)
            if sibling is not None:
                try:
                    planner.plan_on(sibling)
                except Exception:
                    pass
            res = planner.plan_on(mdp)
            r.count('transitions')
        except Exception as e:
            pi_ok = False
            r.violation('pi:exception', {'error': repr(e)[:300]}, item, finding=_pi_finding(spec, k1))
        if pi_ok:
            sub = Res()
            check_result(res, 'pi', mdp, spec, ref, 1e-7, True, undef, sub, item, slack_eval=1e-6)
            _merge_pi(r, sub, spec, k1)
            if do_batch:
                spec2 = Spec(spec_item[:5] + (F(1, 2) if spec.gamma != F(1, 2) else F(9, 10),))
                if not (spec2.gamma == 1 and not spec2.rewards_nonpositive()):
                    mdp2 = build.SpecMDP(spec2, slabel, alabel, explicit)
                    try:
                        if mdp2.transition_matrix.shape == mdp.transition_matrix.shape:
                            # a batch mixes problems that stabilise at different sweeps: a zero-reward copy (stable at once) first
                            zero_T = tuple(tuple((a, d, F(0)) for a, d, rw in row) for row in spec_item[2])
                            mdp0 = build.SpecMDP(Spec(spec_item[:2] + (zero_T,) + spec_item[3:]), slabel, alabel, explicit)
                            # ... and a state-reversed isomorphic copy first-but-one (same shape, action sets at other states)
                            nn = spec.n
                            rev_T = tuple(tuple((a, tuple((nn - 1 - t, p_) for t, p_ in d), rw) for a, d, rw in spec_item[2][nn - 1 - s_])
                                          for s_ in range(nn))
                            rev_item = ('mdp', nn, rev_T, tuple(sorted(nn - 1 - x for x in spec_item[3])),
                                        tuple((nn - 1 - x, p_) for x, p_ in spec_item[4]), spec_item[5])
                            mdpr = build.SpecMDP(Spec(rev_item), slabel, alabel, True)
                            if explicit and mdpr.transition_matrix.shape == mdp.transition_matrix.shape and \
                                    not (Spec(rev_item).gamma == 1 and zero_reward_improper_cycle(Spec(rev_item))):
                                first = [mdpr, mdp0]
                            else:
                                first = [mdp0]
                            if spec.gamma == 1:
                                # an undiscounted problem written with the integer 1 as its discount leads the batch
                                lead = build.SpecMDP(spec, slabel, alabel, explicit)
                                lead.discount_rate = 1
                                first = [lead] + first
                            b = PolicyIteration(max_iterations=500, undefined_value=undef).batch_plan_on(first + [mdp2, mdp, mdp2])[len(first):]
                            r.count('transitions')
                            single2 = PolicyIteration(max_iterations=500, undefined_value=undef).plan_on(mdp2)
                            for got, want, nm in ((b[1], res, 'b1'), (b[0], single2, 'b0'), (b[2], single2, 'b2')):
                                if got.converged and want.converged:
                                    if not (np.allclose(np.array(got.state_value), np.array(want.state_value), atol=1e-9, equal_nan=True)
                                            and np.allclose(np.array(got.policy), np.array(want.policy), atol=1e-9)):
                                        r.violation('pi:batch_differs_from_single', {'which': nm,
                                                    'batch': np.array(got.state_value), 'single': np.array(want.state_value)}, item,
                                                    finding=_pi_finding(spec, k1))
                    except Exception as e:
                        r.violation('pi:batch_exception', {'error': repr(e)[:300]}, item, finding=_pi_finding(spec, k1))
    if k1:
        r.violation('k1:true_optimum_differs_from_trap_zero', {'trap': sorted(trap)}, item, finding='K1')
    if r.counters.get('states', 0) == 1 and len(r.samples) == 0 and hash(repr(spec_item)) % 5000 == 0:
        r.sample({'spec': repr(spec_item), 'variant': VARIANTS[vi], 'Vstar': V0, 'undefined_value': repr(undef)})
    return r


def zero_reward_improper_cycle(spec):
    """K2 class predicate: undiscounted, and some deterministic policy has a closed class of
    non-absorbing, non-trap states with zero reward (so an optimal policy may be improper)."""
    if spec.gamma < 1:
        return False
    trap = spec.trap()
    A = spec.absorbing()
    n = spec.n
    for pi in refmdp.det_policies(spec, zero=trap):
        P, rr, _ = refmdp.chain_of(spec, pi, zero=trap)
        adj = [{j for j in range(n) if P[i][j] > 0} for i in range(n)]
        rc = refmdp.reach_sets(adj, n)
        for s in range(n):
            if s in A or s in trap:
                continue
            if all(s in rc[t] for t in rc[s]) and all(rr[t] == 0 for t in rc[s]):
                return True
    return False


def _pi_finding(spec, k1):
    if zero_reward_improper_cycle(spec):
        return 'K2'
    return None


def _merge_pi(r, sub, spec, k1):
    if sub.violations or sub.counters.get('violations_new'):
        f = _pi_finding(spec, k1)
        for v in sub.violations:
            r.violation(v['kind'], v['detail'], v['item'], finding=f)
    for k, v in sub.counters.items():
        if k not in ('violations_new',) and not k.startswith('known:'):
            r.count(k, v)


def replay(rec):
    return check(item_from_record(rec), rec.get('tier', 'quick'))
