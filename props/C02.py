"""C02 -- exact policy evaluation solves the Bellman expectation equations.

E1: every small MDP spec x every stochastic policy on a quarter lattice, evaluated by the real
`TabularPolicy.evaluate_on` (three ways of building the table) and compared with an exact rational
solve of the policy's Markov chain."""
import math
import warnings
from fractions import Fraction as F
from itertools import product

import numpy as np

from mc.run import Res, item_from_record
from mc import refmdp, build
from mc.refmdp import Spec, NEG_INF, POS_INF

ID = 'C02'
RULE = ("Cartesian enumeration of MDP specs (as C01) x ALL stochastic policies whose per-state action weights lie on the "
        "lattice {0,1/4,1/2,3/4,1}; each (spec, policy) is evaluated by TabularPolicy.evaluate_on with the table built "
        "directly, via FunctionalPolicy.to_tabular, or with permuted state/action lists (rotating) and compared with the "
        "exact chain solve. states = (spec, policy) pairs; transitions = evaluate_on calls compared. Non-trivial = the "
        "policy mixes >= 2 actions at some non-absorbing state or the chain has >= 2 non-absorbing states with different exact values.")
ASSUMPTIONS = [
    "probabilities/rewards/discounts from the C01 alphabet; policy weights on a quarter lattice",
    "tolerance 1e-9 relative (direct linear solves)",
    "occupancy convention: expected discounted number of visits, entering an absorbing state counted once (shared by both evaluators in msdm)",
    "action values are compared at non-absorbing states only (the statement fixes absorbing states' *state* value at 0)",
    "policies whose action list is a strict subset of the MDP's are outside the alphabet",
]
BUDGET = {'quick': 900, 'thorough': 7200}
CHUNK = {'quick': 32, 'thorough': 32}
MANIFEST = {'engines': ['E1-enum']}

FORMS = ['direct', 'to_tabular', 'permuted']


def bounds(tier):
    return {'quick': {'n_states': '1..2 Cartesian (dist level 1, rewards {-1,0,1}; <=0 undiscounted) + n=3 chain family',
                      'policies': 'all on quarter lattice', 'gamma': ['1/2', '9/10', '1']},
            'thorough': {'n_states': '1..2 Cartesian (rewards {-2..1}, all absorbing sets/inits), n=3 reduced Cartesian + chain families',
                         'policies': 'all on quarter lattice', 'gamma': ['1/2', '9/10', '1']}}[tier]


def spec_items(tier):
    AS = [('a',), ('a', 'b')]
    R3 = [F(-1), F(0), F(1)]
    G = [F(1, 2), F(9, 10), F(1)]
    yield from build.enum_mdps(1, [('a',), ('b',), ('a', 'b')], 0, R3, [(), (0,)], build.INIT_MENU[1], G)
    yield from (it for it in build.edge_mdps() if it[5] > 0)
    # a three-action state (three-way mixtures, incl. weights such as 1/5, 7/10, 1/10 whose float sum is not exactly 1)
    yield from build.enum_mdps(2, None, 0, [F(-1), F(0)], [(), (1,)], [build.INIT_MENU[2][0]], [F(9, 10), F(1)],
                               per_state_action_sets=[[('a', 'b', 'c')], [('a',)]])
    if tier == 'quick':
        yield from build.enum_mdps(2, AS, 1, [F(-1), F(0)], [(), (1,)], [build.INIT_MENU[2][0], build.INIT_MENU[2][2]],
                                   [F(9, 10), F(1)])
        yield from build.enum_mdps(2, [('b',), ('a', 'b')], 1, [F(-1), F(1)], [()], [build.INIT_MENU[2][1]], [F(1, 2)])
        yield from build.chain_mdps(3, [F(1)], [F(-1), F(0)])
    else:
        yield from build.thorough_mdps()


def items(tier, seed):
    for i, it in enumerate(spec_items(tier)):
        yield (it, (i + seed) % len(SLAB), (i // 2 + seed) % 3)


LATTICE = {1: [(F(1),)],
           2: [(F(1), F(0)), (F(3, 4), F(1, 4)), (F(1, 2), F(1, 2)), (F(1, 4), F(3, 4)), (F(0), F(1))],
           3: [w for w in product([F(0), F(1, 4), F(1, 2), F(3, 4), F(1)], repeat=3) if sum(w) == 1] +
              [(F(1, 5), F(7, 10), F(1, 10)), (F(3, 10), F(7, 20), F(7, 20)), (F(1, 3), F(1, 3), F(1, 3)), (F(1, 10), F(1, 5), F(7, 10)),
               (F(7, 10), F(1, 5), F(1, 10))]}
SLAB = ['int', 'rev', 'str', 'mix', 'tup', 'fd']
ALAB = ['ab', 'rev', 'ab', 'mix', 'rev', 'fd']


TOL = [1e-9]


def _cmp(got, want, tol=None):
    tol = TOL[0] if tol is None else tol
    got = float(got)
    if want == NEG_INF or want == POS_INF:
        return got == want
    want = float(want)
    if math.isnan(got) or math.isinf(got):
        return False
    return abs(got - want) <= tol * max(1.0, abs(want))


def check(item, tier):
    from msdm.core.mdp import TabularPolicy, FunctionalPolicy
    from msdm.core.distributions import DictDistribution
    r = Res()
    spec_item, li, fi = item
    spec = Spec(spec_item)
    if spec.dead_ends() or (spec.gamma == 1 and not spec.rewards_nonpositive()):
        r.count('out_of_scope')
        return r
    A = spec.absorbing()
    n = spec.n
    minp = min([p for s_ in range(n) for a in spec.acts[s_] for p in spec.T[s_][a].values()] + [F(1)])
    TOL[0] = max(1e-9, 1e-13 / float(minp))     # direct solves lose ~1/min-probability digits on near-singular chains
    with warnings.catch_warnings():
        warnings.simplefilter('ignore')
        np.seterr(all='ignore')
        mdp = build.SpecMDP(spec, SLAB[li], ALAB[li], explicit_lists=(li % 2 == 1))
        sl, al = mdp.sl, mdp.al
        slist = list(mdp.state_list)
        alist = list(mdp.action_list)
        present = [s for s in range(n) if sl(s) in set(slist)]
        lat = dict(LATTICE)
        if n == 1 or build.has_tiny_probability(spec_item) or n >= 5:
            e9 = F(1, 10 ** 9)
            lat[2] = LATTICE[2] + [(1 - e9, e9), (e9, 1 - e9)]       # near-deterministic policies (positive but tiny probabilities)
        current = {}
        shared_fp = FunctionalPolicy(lambda ls: DictDistribution({al(a): float(w) for a, w in current['pi'][mdp.s_of[ls]].items()}))
        for pidx, combo in enumerate(product(*[lat[len(spec.acts[s])] for s in range(n)])):
            pi = {s: {a: w for a, w in zip(spec.acts[s], combo[s])} for s in range(n)}
            form = FORMS[(fi + pidx) % 3]
            r.count('states')
            try:
                if form == 'direct':
                    data = np.array([[float(pi[mdp.s_of[ls]].get(mdp.a_of[la], 0)) for la in alist] for ls in slist])
                    pol = TabularPolicy.from_state_action_lists(state_list=mdp.state_list, action_list=mdp.action_list, data=data)
                elif form == 'to_tabular':
                    # the same policy object is tabulated again and again while the parameters it reads change
                    current['pi'] = pi
                    pol = shared_fp.to_tabular(mdp.state_list, mdp.action_list)
                else:
                    sl2, al2 = slist[::-1], alist[::-1]
                    data = np.array([[float(pi[mdp.s_of[ls]].get(mdp.a_of[la], 0)) for la in al2] for ls in sl2])
                    pol = TabularPolicy.from_state_action_lists(state_list=tuple(sl2), action_list=tuple(al2), data=data)
                res = pol.evaluate_on(mdp)
            except BaseException as e:  # noqa
                r.violation('exception', {'error': repr(e)[:300], 'policy': pi, 'form': form}, item)
                continue
            r.count('transitions')
            try:
                V, Q = refmdp.eval_policy(spec, pi)
                occ = refmdp.occupancy(spec, pi)
            except ValueError:
                r.count('skipped_reference_undefined')
                continue
            ctx = {'policy': pi, 'form': form}
            nontriv = any(sum(1 for w in pi[s].values() if w > 0) >= 2 for s in present if s not in A) or \
                len({V[s] for s in present if s not in A}) >= 2
            if nontriv:
                r.nontriv((spec_item, combo))
            for s in present:
                ls = sl(s)
                if not _cmp(res.state_value[ls], V[s]):
                    r.violation('state_value', dict(ctx, s=s, got=float(res.state_value[ls]), want=V[s]), item)
                if not _cmp(res.state_occupancy[ls], occ[s]):
                    r.violation('state_occupancy', dict(ctx, s=s, got=float(res.state_occupancy[ls]), want=occ[s]), item)
                if s in A:
                    continue
                for a in 'abc':
                    la = al(a)
                    if la not in set(alist):
                        continue
                    got = float(res.action_value[ls][la])
                    if a in spec.acts[s]:
                        if not _cmp(got, Q[s, a]):
                            r.violation('action_value', dict(ctx, s=s, a=a, got=got, want=Q[s, a]), item)
                    elif got != NEG_INF:
                        r.violation('unavailable_action_not_minus_inf', dict(ctx, s=s, a=a, got=got), item)
            iv_want = F(0)
            for s, p in spec.init.items():
                if p > 0:
                    if V[s] == NEG_INF:
                        iv_want = NEG_INF
                        break
                    iv_want += p * V[s]
            if not _cmp(res.initial_value, iv_want):
                r.violation('initial_value', dict(ctx, got=float(res.initial_value), want=iv_want), item)
            if pidx == 1 and hash(repr(spec_item)) % 4000 == 0:
                r.sample({'spec': repr(spec_item), 'policy': pi, 'form': form, 'V': V, 'occupancy': occ})
    return r


def replay(rec):
    return check(item_from_record(rec), rec.get('tier', 'quick'))
