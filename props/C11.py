"""C11 -- finite distributions obey the probability calculus.

E1: bounded-exhaustive enumeration of finite distributions of every provided kind (DictDistribution,
UniformDistribution, DeterministicDistribution, SoftmaxDistribution, TableDistribution obtained by
indexing a ProbabilityTable) over <= 3 events of mixed hashable kinds, probabilities on a 1/8
lattice (zero entries and unnormalised vectors included), with every projection / likelihood /
real-valued function / kernel from finite menus and pairs of distributions of different kinds.
Every operation result is compared, as a function event -> probability, with the same operation
done on a plain {event: Fraction} dict by the boring code in this file.

E2: `sample(rng=ChoiceRandom(explorer))` explored over all answers of the generator; real seeded
generators for the "equally seeded => identical sequence" clause.
"""
import math
import numpy as np
import random as _random          # ONLY random.Random(seed) (+ fixing/restoring the global state) for the equal-seed clause;
                                  # never used to generate cases
from fractions import Fraction as F
from itertools import product

from mc.run import Res, HarnessError, item_from_record
from mc.explore import Explorer, Truncated

ID = 'C11'
RULE = (
    "Items: (U) one distribution spec = (kind, events, parameters) x a construction variant; behind it ALL projections of "
    "its events to <=2 values (2 value menus; all 4 in thorough) + identity, ALL likelihoods with values in {0,1/2,1} (+ the "
    "bool-valued copies of the {0,1} ones), ALL real functions with values in {-2,0,3/2} (+ identity on numeric events), ALL "
    "kernels events -> {4 (thorough 5) target distributions of different kinds} + 3 special kernels, scalars {0,1/2,1,2,3} "
    "(both d*c and c*d), normalize, softmax oracle + 5 shifts, and the sampling clauses (E2: every answer of one draw, of two "
    "successive draws, of k=2; seeds {0,1,2,VERIF_SEED} x 5 draws twice + through ChoiceRandom(real_seed)). "
    "(B) an ordered pair of specs (kinds mostly different; 3 overlap patterns of the event sets: same / partial+reordered / "
    "disjoint): joint, |, 4 scaled mixtures, & in both orders. "
    "Dict/table probability vectors: the whole normalised 1/8 lattice for 1..3 events (zeros included) + all unnormalised "
    "vectors over {0,1/4,1/2,1} (thorough {0,1/8,1/2,1,3/2}); softmax scores: all vectors over {0,1,-1/2,-inf} "
    "(thorough {-2,0,1/2,1,3,-inf}) minus all -inf. Event label sets rotate through a 13-element mixed pool "
    "(ints, strs, tuples, None, frozensets, float, empty tuple). "
    "states = distinct (spec, variant) resp. (specA, specB) operand tuples; transitions = operation instances compared with "
    "the Fraction oracle; executions = explorer/real-generator executions of sample. "
    "Non-trivial instance: marginalize merges >=2 positive-probability events; condition: likelihood takes >=2 values on the "
    "positive events and the conditioning event has positive mass; chain: >=2 positive events sent to different targets; "
    "expectation: function non-constant on positive events; normalize: total != 1 and >=2 positive events; joint: both "
    ">=2 positive events; mixture: some common event positive in both; conjunction: >=2 common events with positive product; "
    "softmax: >=2 distinct finite scores; sample: >=2 positive events.")
ASSUMPTIONS = [
    "<=3 events per distribution from a fixed 13-element pool of pairwise unequal hashables (no 1/True/1.0 collisions: those are C12's subject)",
    "probabilities are floats (Python ints for integral entries in one construction variant) on a dyadic lattice, so the exact "
    "expected values are representable and most comparisons are exact; tolerance 1e-12 relative per event probability "
    "(expected 0 => exactly 0), expectation: 1e-12 * sum|p*f(e)|",
    "results are compared as functions event -> probability (a missing key is probability 0); key sets are only demanded for "
    "& (result keys within the common support, as the statement says 'on the common support')",
    "outside the statement, recorded in counters and never flagged: zero-mass inputs, conditioning on a zero-mass event, & with "
    "zero common mass, whether a one-point distribution consumes generator draws, k>1 on a one-point distribution, "
    "TableDistribution.prob of a foreign tuple",
    "softmax oracle: exp(s_i)/sum_j exp(s_j) with math.exp/math.fsum, unshifted (scores |s|<=20); shifts are dyadic so s+c is exact",
    "E2: ChoiceRandom enumerates the positive-weight answers of choices()/all answers of choice(); the stdlib generator itself is trusted",
    "a disagreement between ChoiceRandom(real_seed=s) and random.Random(s) on a distribution whose sampling passed every other "
    "clause is a harness error (exit 2), not a verdict",
    "the two equally seeded runs start from two different fixed states of the global `random` generator (restored afterwards) so "
    "that the verdict is deterministic even for code that would draw from the global generator; cases are never generated randomly",
]
BUDGET = {'quick': 600, 'thorough': 3000}
CHUNK = {'quick': 48, 'thorough': 128}
MANIFEST = {
    'engines': ['E1-enum', 'E2-explore'],
    'technique': 'bounded-exhaustive enumeration of distributions/operands on the real classes vs a plain {event: Fraction} '
                 'reference; stateless exploration of every generator answer for sample()',
    'level_text': 'bounded-exhaustive exploration of the real implementation against an exact rational reference',
    'design_ref': 'DESIGN.md section 3 / C11',
}
EXPLANATION = ("Every operation of the statement is executed on the real msdm objects for every enumerated operand and compared "
               "with a Fraction computation on plain dicts; sample() is explored over all generator answers.")

NEG_INF = float('-inf')
TOL = F(1, 10 ** 12)

# ---------------------------------------------------------------------------------------------
# alphabets
POOL = [0, 'a', (0, 1), None, frozenset({1}), 1, 'b', ('a', 0), -1, 2.5, (), 'ab', frozenset()]
FRESH = ('q', 7, ('q', 7))                      # events never in POOL (second operand of pairs)
YS = ('x', 9, (9, 'x'))                         # events of the kernel targets
NLAB = len(POOL)                                # 13, prime: stride 3 gives distinct entries


def labels(n, j):
    return tuple(POOL[(j + 3 * t) % NLAB] for t in range(n))


def lattice(n, den=8):
    return [tuple(F(i, den) for i in v) for v in product(range(den + 1), repeat=n) if sum(v) == den]


def unnormalised(n, vals):
    return [v for v in product(vals, repeat=n) if sum(v) != 1 and sum(v) > 0]


def prob_vectors(tier):
    vals = [F(0), F(1, 4), F(1, 2), F(1)] if tier == 'quick' else [F(0), F(1, 8), F(1, 2), F(1), F(3, 2)]
    out = []
    for n in (1, 2, 3):
        out.extend(lattice(n))
    for n in (1, 2, 3):
        out.extend(unnormalised(n, vals))
    # totals next to 1 (a few parts per million off): still unnormalised inputs
    out += [(F(1, 2), F(1, 2) + F(1, 250000)), (F(1, 4), F(3, 4) - F(3, 10 ** 6)), (F(1, 4), F(1, 4), F(1, 2) + F(1, 500000)),
            (F(1) + F(1, 200000),)]
    return out


def score_vectors(tier):
    vals = [F(0), F(1), F(-1, 2), NEG_INF] if tier == 'quick' else [F(-2), F(0), F(1, 2), F(1), F(3), NEG_INF]
    out = []
    for n in (1, 2, 3):
        out.extend(v for v in product(vals, repeat=n) if any(s != NEG_INF for s in v))
    # one dominant score (the others' exponentials sum to ~1e-6 .. 1e-9 of it)
    out += [(F(0), F(13)), (F(13), F(0)), (F(-20), F(0)), (F(0), F(-25, 2), F(1)), (F(13), F(0), F(0)), (F(0), F(14), NEG_INF)]
    return out


SHIFTS = [F(-1000), F(-1), F(1, 8), F(1), F(1000)]
LIK = [F(0), F(1, 2), F(1)]
REALS = [F(-2), F(0), F(3, 2)]
SCALARS = [0, 0.5, 1, 2, 3.0, np.float64(0.5), np.float64(2.0)]      # also numpy scalars (what table-backed probabilities are)
MIXW = [(F(1, 2), F(1, 2)), (F(1, 4), F(3, 4)), (F(2), F(1)), (F(0), F(1))]
PATTERNS = ('same', 'partial', 'disjoint')

# second operands of the quick tier (kind, n, params)
BMENU = [
    ('det', 1, ()), ('uniform', 2, ()), ('uniform', 3, ()),
    ('dict', 1, (F(1),)), ('dict', 2, (F(1, 2), F(1, 2))), ('dict', 2, (F(1, 4), F(3, 4))), ('dict', 2, (F(0), F(1))),
    ('dict', 3, (F(1, 8), F(0), F(7, 8))), ('dict', 3, (F(1, 4), F(1, 4), F(1, 2))), ('dict', 2, (F(1, 2), F(1))),
    ('softmax', 2, (F(0), F(1))), ('softmax', 3, (F(0), NEG_INF, F(1, 2))),
    ('table', 1, (F(1),)), ('table', 2, (F(3, 4), F(1, 4))), ('table', 3, (F(1, 2), F(0), F(1, 2))),
    ('table', 3, (F(1, 4), F(1, 2), F(1, 2))),
]


def unary_specs(tier, seed, nlab):
    """(spec, variant) in simplest-first order; label sets and construction variants rotate."""
    i = 0
    for n in (1, 2, 3):
        for j in range(NLAB):
            ev = labels(n, j)
            if n == 1:
                yield ('det', ev, ()), (i + seed) % 4
                i += 1
            yield ('uniform', ev, ()), (i + seed) % 4
            i += 1
    for kind in ('dict', 'table'):
        for vi, v in enumerate(prob_vectors(tier)):
            for l in range(nlab):
                yield (kind, labels(len(v), (vi + seed + 4 * l) % NLAB), v), (i + seed) % 24
                i += 1
    for vi, v in enumerate(score_vectors(tier)):
        for l in range(nlab):
            yield ('softmax', labels(len(v), (vi + seed + 1 + 4 * l) % NLAB), v), (i + seed) % 24
            i += 1
    # zero-mass inputs: outside the statement, behaviour recorded in counters only
    for kind in ('dict', 'table'):
        for n in (1, 2, 3):
            yield (kind, labels(n, (n + seed) % NLAB), (F(0),) * n), (i + seed) % 24
            i += 1


def second_events(ea, nb, pattern):
    if pattern == 'same':
        return tuple(ea[i] if i < len(ea) else FRESH[i] for i in range(nb))
    if pattern == 'partial':
        rev = list(reversed(ea))[:max(nb - 1, 1)]
        return tuple(rev) + FRESH[:nb - len(rev)]
    return FRESH[:nb]


def items(tier, seed):
    nlab = 2 if tier == 'quick' else 5
    for spec, var in unary_specs(tier, seed, nlab):
        yield ('U', spec, var, seed)
    # pairs: first operand = every unary spec (one label set each), second = menu x overlap pattern
    firsts = [sv for sv in unary_specs(tier, seed, 1) if sum(p for p in _ref_of(sv[0]).values()) > 0]
    if tier == 'quick':
        seconds = BMENU
    else:
        seen, seconds = set(), []
        for (kind, ev, par), _ in unary_specs('quick', 0, 1):
            key = (kind, len(ev), par)
            if key not in seen and (kind in ('uniform', 'det') or sum(1 for p in par if p != 0) > 0):
                seen.add(key)
                seconds.append(key)
    k = 0
    for (sa, va) in firsts:
        for (kind, nb, par) in seconds:
            for pat in PATTERNS:
                sb = (kind, second_events(sa[1], nb, pat), par)
                yield ('B', sa, va, sb, (k + seed) % 24, pat)
                k += 1


def bounds(tier):
    nv, ns = len(prob_vectors(tier)), len(score_vectors(tier))
    return {'events_per_distribution': '1..3 from a 13-element mixed pool', 'probability_vectors_dict_and_table': nv,
            'softmax_score_vectors': ns, 'label_sets_per_vector': 2 if tier == 'quick' else 5,
            'second_operands': len(BMENU) if tier == 'quick' else 'all quick unary specs', 'overlap_patterns': list(PATTERNS),
            'likelihood_values': ['0', '1/2', '1', 'False', 'True'], 'real_values': ['-2', '0', '3/2'],
            'kernel_targets': 4 if tier == 'quick' else 5, 'scalars': [repr(x) for x in SCALARS], 'softmax_shifts': [str(s) for s in SHIFTS],
            'sampling': 'E2 all answers (1 draw, 2 draws, k=2); seeds {0,1,2,VERIF_SEED} x 5 draws'}


# ---------------------------------------------------------------------------------------------
# the reference: plain dicts of Fractions
def softmax_ref(scores):
    """Independent, unshifted softmax in floats (scores are small); -inf => probability 0."""
    ex = [0.0 if s == NEG_INF else math.exp(float(s)) for s in scores]
    z = math.fsum(ex)
    return [F(x / z) for x in ex]


def _ref_of(spec):
    kind, ev, par = spec
    if kind == 'det':
        return {ev[0]: F(1)}
    if kind == 'uniform':
        return {e: F(1, len(ev)) for e in ev}
    if kind == 'softmax':
        return dict(zip(ev, softmax_ref(par)))
    return dict(zip(ev, par))


def o_marginalize(ref, proj):
    out = {}
    for e, p in ref.items():
        y = proj(e)
        out[y] = out.get(y, F(0)) + p
    return out


def o_chain(ref, kref):
    out = {}
    for e, p in ref.items():
        for y, q in kref(e).items():
            out[y] = out.get(y, F(0)) + p * q
    return out


def o_condition(ref, lik):
    num = {e: p * F(lik(e)) for e, p in ref.items()}
    z = sum(num.values())
    if z == 0:
        return None
    return {e: v / z for e, v in num.items()}


def o_joint(ra, rb):
    return {(a, b): pa * pb for a, pa in ra.items() for b, pb in rb.items()}


def o_mix(ra, rb, wa=F(1), wb=F(1)):
    out = {}
    for e, p in ra.items():
        out[e] = out.get(e, F(0)) + wa * p
    for e, p in rb.items():
        out[e] = out.get(e, F(0)) + wb * p
    return out


def o_and(ra, rb):
    common = [e for e in ra if e in rb]
    prod = {e: ra[e] * rb[e] for e in common}
    z = sum(prod.values())
    if z == 0:
        return None, common
    return {e: v / z for e, v in prod.items()}, common


def o_expectation(ref, g):
    return sum(p * F(g(e)) for e, p in ref.items()), sum(abs(p * F(g(e))) for e, p in ref.items())


def o_normalize(ref):
    z = sum(ref.values())
    return {e: p / z for e, p in ref.items()}


# ---------------------------------------------------------------------------------------------
# building the real objects
def _num(p, as_int):
    if p == NEG_INF:
        return NEG_INF
    if as_int and p.denominator == 1:
        return int(p)
    return float(p)


def build(spec, var):
    """-> (msdm distribution, description of how it was built)."""
    from msdm.core.distributions import DictDistribution, UniformDistribution, DeterministicDistribution, \
        SoftmaxDistribution
    kind, ev, par = spec
    if kind == 'det':
        if var % 2:
            return DictDistribution.deterministic(ev[0]), 'DictDistribution.deterministic'
        return DeterministicDistribution(ev[0]), 'DeterministicDistribution'
    if kind == 'uniform':
        sup = list(ev) if var % 2 else tuple(ev)
        if var % 4 >= 2:
            return DictDistribution.uniform(sup), 'DictDistribution.uniform'
        return UniformDistribution(sup), 'UniformDistribution'
    if kind == 'dict':
        how = var % 4
        vals = [_num(p, how == 3) for p in par]
        if how == 0:
            return DictDistribution(dict(zip(ev, vals))), 'DictDistribution(dict)'
        if how == 1:
            return DictDistribution(list(zip(ev, vals))), 'DictDistribution(pairs)'
        if how == 2:   # duplicates are summed; halves of lattice points are exact
            pairs = [(e, float(p) / 2) for e, p in zip(ev, par)]
            return DictDistribution.from_pairs(pairs + list(reversed(pairs))), 'DictDistribution.from_pairs(split)'
        if all(isinstance(e, str) and e.isidentifier() for e in ev):
            return DictDistribution(**dict(zip(ev, vals))), 'DictDistribution(**kw, ints)'
        return DictDistribution(dict(zip(ev, vals))), 'DictDistribution(dict, ints)'
    if kind == 'softmax':
        vals = [_num(s, var % 4 == 3) for s in par]
        if var % 2 == 1:
            return SoftmaxDistribution(list(zip(ev, vals))), 'SoftmaxDistribution(pairs)'
        return SoftmaxDistribution(dict(zip(ev, vals))), 'SoftmaxDistribution(dict)'
    if kind == 'table':
        import numpy as np
        from msdm.core.table import ProbabilityTable, TableIndex
        n = len(ev)
        rowkeys = [('r0', 'r1'), (0, None), ((0, 1), 'z')][var % 3]
        pos = (var // 3) % 2
        other = [1.0 / n] * n
        target = [float(p) for p in par]
        rows = [other, other]
        rows[pos] = target
        if (var // 6) % 2 == 0:
            pt = ProbabilityTable(np.array(rows, dtype=float),
                                  TableIndex(field_names=['row', 'event'], field_domains=[list(rowkeys), list(ev)]))
            return pt[rowkeys[pos]], f'ProbabilityTable[2x{n}][{rowkeys[pos]!r}]'
        pt = ProbabilityTable(np.array([rows, [other, other]], dtype=float),
                              TableIndex(field_names=['g', 'row', 'event'],
                                         field_domains=[['g0', 'g1'], list(rowkeys), list(ev)]))
        if (var // 12) % 2 == 0:
            return pt['g0'][rowkeys[pos]], f'ProbabilityTable[2x2x{n}][g0][{rowkeys[pos]!r}]'
        return pt[('g0', rowkeys[pos])], f'ProbabilityTable[2x2x{n}][(g0,{rowkeys[pos]!r})]'
    raise HarnessError(f'unknown kind {kind}')


# ---------------------------------------------------------------------------------------------
# comparison helpers
def _F(x):
    """Exact rational value of a number produced by msdm (None if not finite / not a number)."""
    try:
        if isinstance(x, F):
            return x
        if isinstance(x, int):
            return F(int(x))
        xf = float(x)
        if xf != xf or xf in (float('inf'), NEG_INF):
            return None
        return F(xf)
    except (TypeError, ValueError):
        return None


def close(got, exp, scale=None):
    g = _F(got)
    if g is None:
        return False
    return abs(g - exp) <= TOL * (abs(exp) if scale is None else scale)


class Ctx:
    """One checked item: result accumulator + the item for violation records."""

    def __init__(self, item):
        self.r = Res()
        self.item = item

    def bad(self, kind, detail, finding=None):
        self.r.violation(kind, detail, self.item, finding=finding)

    def call(self, op, fn, detail):
        """Run an in-scope operation of the real code; any exception is a violation."""
        try:
            return True, fn()
        except (HarnessError, Truncated, KeyboardInterrupt, SystemExit, MemoryError):
            raise
        except BaseException as e:   # DomainError of msdm derives from BaseException
            d = dict(detail)
            d['error'] = repr(e)[:300]
            self.bad(op + ':exception', d)
            return False, None

    def probe(self, name, fn):
        """Run something outside the statement and record what happens (never a violation)."""
        try:
            v = fn()
            self.r.count(f'outside:{name}:returned')
            return v
        except (HarnessError, Truncated, KeyboardInterrupt, SystemExit, MemoryError):
            raise
        except BaseException as e:
            self.r.count(f'outside:{name}:raised:{type(e).__name__}')
            return None

    def same_function(self, op, res, exp, detail, keys_within=None):
        """res (an msdm finite distribution) must equal exp as a function event -> probability."""
        r = self.r
        r.count('transitions')
        r.count('op:' + op.split(':')[0])
        ok, got_items = self.call(op, lambda: list(res.items()), detail)
        if not ok:
            return False
        got = {}
        for e, p in got_items:
            if e in got:
                self.bad(op + ':duplicate_event_in_items', dict(detail, event=repr(e)))
                return False
            got[e] = p
        wrong = {}
        for e in set(got) | set(exp):
            x = exp.get(e, F(0))
            if not close(got.get(e, 0), x):
                wrong[repr(e)] = {'got': repr(got.get(e, 'missing (=0)')), 'expected': x}
        if wrong:
            self.bad(op + ':wrong_probability', dict(detail, wrong=wrong, result=repr(got), expected=exp))
            return False
        for e, x in exp.items():       # prob() of the result tells the same story as items()
            ok, p = self.call(op + ':prob', lambda: res.prob(e), dict(detail, event=repr(e)))
            if ok and not close(p, x):
                self.bad(op + ':prob_disagrees_with_items', dict(detail, event=repr(e), prob=repr(p), expected=x))
                return False
        if keys_within is not None:
            extra = [repr(e) for e in got if e not in keys_within]
            if extra:
                self.bad(op + ':event_outside_common_support', dict(detail, extra=extra, result=repr(got)))
                return False
        r.outcome((op.split(':')[0], tuple(sorted((repr(e), str(p)) for e, p in exp.items() if p != 0))))
        return True

    def total_is(self, op, res, want, detail):
        ok, tot = self.call(op, lambda: math.fsum(float(p) for _, p in res.items()), detail)
        if ok and not close(tot, want):
            self.bad(op, dict(detail, total=tot, expected=want))


def describe(spec, how=None):
    kind, ev, par = spec
    d = {'kind': kind, 'events': repr(ev), 'params': [str(p) for p in par]}
    if how:
        d['built_by'] = how
    return d


def positive(ref):
    return [e for e, p in ref.items() if p > 0]


# ---------------------------------------------------------------------------------------------
# unary operations
def read_back(c, d, spec, ref, how):
    """The object represents the specified function (items/prob/values agree with the spec)."""
    det = describe(spec, how)
    if not c.same_function('read', d, ref, det):
        return False
    ok, sup = c.call('read:support', lambda: list(d.support), det)
    if not ok:
        return False
    missing = [repr(e) for e in positive(ref) if e not in sup]
    foreign = [repr(e) for e in sup if e not in ref]
    if missing or foreign or len(set(sup)) != len(sup):
        c.bad('read:support', dict(det, support=repr(sup), missing=missing, foreign=foreign))
        return False
    if spec[0] != 'table':
        ok, p = c.call('read:prob_foreign', lambda: d.prob('no-such-event'), det)
        if ok and not close(p, F(0)):
            c.bad('read:prob_foreign_nonzero', dict(det, prob=repr(p)))
    else:
        ev = spec[1]
        for foreign_event in ('no-such-event', (ev[0],), ('no', 'such')):
            if foreign_event in ref:
                continue
            v = c.probe('table_prob_foreign_' + type(foreign_event).__name__, lambda: d.prob(foreign_event))
            if v is not None and v != 0:
                c.r.count('outside:table_prob_foreign_tuple_nonzero')
    return True


def value_menus(ev, var, tier):
    menus = [('u', 'v'), (0, (0,)), (None, frozenset()), (ev[0], ev[-1] if ev[-1] != ev[0] else 'w')]
    if tier == 'quick':
        return [menus[var % 3], menus[3]]
    return menus


def op_marginalize(c, d, spec, ref, var, tier):
    ev = spec[1]
    n = len(ev)
    det0 = describe(spec)
    total = sum(ref.values())
    pos = set(positive(ref))
    projs = []
    for vals in value_menus(ev, var, tier):
        for assign in product((0, 1), repeat=n):
            projs.append({e: vals[a] for e, a in zip(ev, assign)})
    projs.append({e: e for e in ev})                       # identity
    projs.append({e: (i % 2, 'p') for i, e in enumerate(ev)})   # tuple-valued
    for table in projs:
        det = dict(det0, projection=repr(table))
        ok, res = c.call('marginalize', lambda: d.marginalize(lambda e: table[e]), det)
        if not ok:
            continue
        exp = o_marginalize(ref, lambda e: table[e])
        if c.same_function('marginalize', res, exp, det):
            c.total_is('marginalize:mass_not_preserved', res, total, det)
        merged = {}
        for e in pos:
            merged[table[e]] = merged.get(table[e], 0) + 1
        if any(k >= 2 for k in merged.values()):
            c.r.nontriv(('marg', spec, repr(table)))


def op_condition(c, d, spec, ref, var):
    ev = spec[1]
    n = len(ev)
    det0 = describe(spec)
    pos = positive(ref)
    liks = [dict(zip(ev, w)) for w in product(LIK, repeat=n)]
    liks += [dict(zip(ev, w)) for w in product((False, True), repeat=n)]
    for table in liks:
        det = dict(det0, likelihood=repr({repr(e): str(w) for e, w in table.items()}))
        as_float = {e: (w if isinstance(w, bool) else (float(w) if (var + n) % 2 or w.denominator != 1 else int(w)))
                    for e, w in table.items()}
        exp = o_condition(ref, lambda e: table[e])
        if exp is None:
            # conditioning on a zero-mass event: outside the statement
            c.probe('condition_on_zero_mass_event', lambda: d.condition(lambda e: as_float[e]))
            continue
        ok, res = c.call('condition', lambda: d.condition(lambda e: as_float[e]), det)
        if not ok:
            continue
        if c.same_function('condition', res, exp, det):
            c.total_is('condition:not_normalised', res, F(1), det)
        if len({F(table[e]) for e in pos}) >= 2:
            c.r.nontriv(('cond', spec, repr(table)))


def op_expectation(c, d, spec, ref):
    ev = spec[1]
    n = len(ev)
    det0 = describe(spec)
    pos = positive(ref)
    funs = [dict(zip(ev, g)) for g in product(REALS, repeat=n)]
    for table in funs:
        det = dict(det0, function=repr({repr(e): str(g) for e, g in table.items()}))
        fl = {e: float(g) for e, g in table.items()}
        ok, got = c.call('expectation', lambda: d.expectation(lambda e: fl[e]), det)
        c.r.count('transitions')
        c.r.count('op:expectation')
        if not ok:
            continue
        exp, scale = o_expectation(ref, lambda e: table[e])
        if not close(got, exp, scale):
            c.bad('expectation:wrong_value', dict(det, got=repr(got), expected=exp))
        if len({table[e] for e in pos}) >= 2:
            c.r.nontriv(('exp', spec, repr(table)))
    if all(isinstance(e, (int, float)) and not isinstance(e, bool) for e in ev):
        det = dict(det0, function='default identity')
        ok, got = c.call('expectation', lambda: d.expectation(), det)
        c.r.count('transitions')
        c.r.count('op:expectation')
        if ok:
            exp, scale = o_expectation(ref, lambda e: F(e))
            if not close(got, exp, scale):
                c.bad('expectation:wrong_value', dict(det, got=repr(got), expected=exp))


def op_normalize_scale(c, d, spec, ref):
    det0 = describe(spec)
    total = sum(ref.values())
    ok, res = c.call('normalize', lambda: d.normalize(), det0)
    if ok and c.same_function('normalize', res, o_normalize(ref), det0):
        c.total_is('normalize:not_normalised', res, F(1), det0)
    if total != 1 and len(positive(ref)) >= 2:
        c.r.nontriv(('norm', spec))
    for s in SCALARS:
        for side in ('d*c', 'c*d'):
            det = dict(det0, scalar=repr(s), form=side)
            ok, res = c.call('scale', (lambda: d * s) if side == 'd*c' else (lambda: s * d), det)
            if ok:
                c.same_function('scale', res, {e: p * F(float(s)) for e, p in ref.items()}, det)


def kernel_targets(tier):
    specs = [('det', (YS[0],), ()), ('uniform', (YS[0], YS[1]), ()),
             ('dict', YS, (F(1, 4), F(3, 4), F(0))), ('table', (YS[1], YS[2]), (F(1, 2), F(1, 2)))]
    if tier != 'quick':
        specs.append(('softmax', (YS[0], YS[2]), (F(0), F(1))))
    return specs


def op_chain(c, d, spec, ref, var, tier):
    from msdm.core.distributions import DictDistribution, DeterministicDistribution
    ev = spec[1]
    n = len(ev)
    det0 = describe(spec)
    pos = positive(ref)
    tspecs = kernel_targets(tier)
    tobjs = [build(ts, var + i)[0] for i, ts in enumerate(tspecs)]
    trefs = [_ref_of(ts) for ts in tspecs]
    for assign in product(range(len(tspecs)), repeat=n):
        table = dict(zip(ev, assign))
        det = dict(det0, kernel=repr({repr(e): tspecs[t][0] + repr(dict((repr(k), str(v)) for k, v in trefs[t].items()))
                                      for e, t in table.items()}))
        ok, res = c.call('chain', lambda: d.chain(lambda e: tobjs[table[e]]), det)
        if not ok:
            continue
        c.same_function('chain', res, o_chain(ref, lambda e: trefs[table[e]]), det)
        if len({table[e] for e in pos}) >= 2:
            c.r.nontriv(('chain', spec, assign))
    # special kernels: identity, pairing with the input event, noisy copy back into the input's own events
    specials = [
        ('identity', lambda e: DeterministicDistribution(e), lambda e: {e: F(1)}),
        ('pair', lambda e: DictDistribution({(e, YS[0]): 0.5, (e, YS[1]): 0.5}),
         lambda e: {(e, YS[0]): F(1, 2), (e, YS[1]): F(1, 2)}),
        ('noisy_copy', lambda e: (DictDistribution({e: 0.5, ev[0]: 0.5}) if e != ev[0] else DictDistribution({e: 1.0})),
         lambda e: ({e: F(1, 2), ev[0]: F(1, 2)} if e != ev[0] else {e: F(1)})),
    ]
    for name, kern, kref in specials:
        det = dict(det0, kernel=name)
        ok, res = c.call('chain', lambda: d.chain(kern), det)
        if ok:
            c.same_function('chain', res, o_chain(ref, kref), det)
        if name == 'noisy_copy' and len(pos) >= 2:
            c.r.nontriv(('chain', spec, name))


def op_softmax(c, spec, var):
    from msdm.core.distributions import SoftmaxDistribution
    kind, ev, scores = spec
    det0 = describe(spec)
    base, _ = build(spec, var)
    ref = _ref_of(spec)
    c.total_is('softmax:not_normalised', base, F(1), det0)
    ok, base_items = c.call('softmax:items', lambda: dict(base.items()), det0)
    if not ok:
        return
    if len({s for s in scores if s != NEG_INF}) >= 2:
        c.r.nontriv(('softmax', spec))
    for sh in SHIFTS:
        det = dict(det0, shift=str(sh))
        shifted = {e: (NEG_INF if s == NEG_INF else float(s + sh)) for e, s in zip(ev, scores)}
        ok, res = c.call('softmax_shift', lambda: SoftmaxDistribution(shifted), det)
        if not ok:
            continue
        # against the oracle of the unshifted scores, and against msdm's own unshifted result
        if c.same_function('softmax_shift', res, ref, det):
            c.total_is('softmax_shift:not_normalised', res, F(1), det)
            for e, p in res.items():
                if not close(p, _F(base_items[e])):
                    c.bad('softmax_shift:not_shift_invariant', dict(det, event=repr(e), shifted=repr(p),
                                                                      unshifted=repr(base_items[e])))
                    break


# ---------------------------------------------------------------------------------------------
# sampling (E2)
def _logged(rng, log):
    """Record what sample() hands to the generator (population/weights), then defer to it."""
    orig_choices, orig_choice = rng.choices, rng.choice

    def choices(population, weights=None, *, cum_weights=None, k=1):
        population = list(population)
        weights = None if weights is None else list(weights)
        log.append(('choices', population, weights, k))
        return orig_choices(population, weights, cum_weights=cum_weights, k=k)

    def choice(seq):
        seq = list(seq)
        log.append(('choice', seq, None, 1))
        return orig_choice(seq)
    rng.choices = choices
    rng.choice = choice
    return rng


def op_sample(c, d, spec, ref, seed):
    r = c.r
    kind = spec[0]
    det0 = describe(spec)
    pos = positive(ref)
    support = list(ref)
    one_point = len(support) == 1
    has_k = kind in ('dict', 'softmax', 'table')
    if len(pos) >= 2:
        r.nontriv(('sample', spec))

    def contract(log, det):
        """weights handed to the generator = the probabilities, aligned with the population."""
        for what, population, weights, k in log:
            if len(set(population)) != len(population) or any(e not in ref for e in population) \
                    or any(e not in population for e in pos):
                c.bad('sample:population_is_not_the_support', dict(det, population=repr(population)))
                return
            if what == 'choices':
                if weights is None or len(weights) != len(population) or \
                        any(not close(w, ref[e]) for e, w in zip(population, weights)):
                    c.bad('sample:weights_not_aligned_with_population',
                          dict(det, population=repr(population), weights=repr(weights), expected=ref))
                    return
            else:   # choice(seq): equal weights by definition -> the probabilities must be equal
                if any(ref[e] != F(1, len(population)) for e in population):
                    c.bad('sample:unweighted_choice_on_nonuniform', dict(det, population=repr(population), expected=ref))
                    return

    def explore(name, draw, expected_results):
        seen = []
        det = dict(det0, mode=name)

        def body(rng):
            log = []
            return draw(_logged(rng, log)), log

        def on_exec(out, ex, trunc):
            r.count('executions')
            if trunc:
                r.count('truncated_executions')
                return
            value, log = out
            contract(log, det)
            # explorer trace: one weighted point per draw over the positive-weight entries
            for (n, dev, sig, chosen, w, labs) in ex.trace:
                if w is not None:
                    if any(not close(x, ref.get(e, F(0))) or ref.get(e, F(0)) <= 0 for x, e in zip(w, labs)):
                        c.bad('sample:trace_weights_are_not_the_probabilities',
                              dict(det, labels=repr(labs), weights=repr(w), expected=ref))
            if one_point:
                r.count('onepoint_draws')
                if len(ex.trace) > 0:
                    r.count('outside:onepoint_consumed_generator_points')
            if value not in seen:
                seen.append(value)
        ex = Explorer(bound=None, max_points=16)
        try:
            ex.explore(body, on_exec)
        except (HarnessError, Truncated, KeyboardInterrupt, SystemExit, MemoryError):
            raise
        except BaseException as e:
            c.bad('sample:exception', dict(det, error=repr(e)[:300]))
            return
        r.count('transitions')
        r.count('op:sample')
        bad = [repr(v) for v in seen if v not in expected_results]
        miss = [repr(v) for v in expected_results if v not in seen]
        want_len = len(expected_results[0]) if isinstance(expected_results[0], list) else None
        if want_len is not None and any(not isinstance(v, list) or len(v) != want_len for v in seen):
            c.bad('sample:wrong_number_of_draws', dict(det, returned=repr(seen), draws=want_len))
        elif bad:
            c.bad('sample:returned_event_without_positive_probability', dict(det, returned=bad, positive=repr(pos)))
        elif miss:
            c.bad('sample:positive_event_unreachable', dict(det, unreachable=miss, reachable=repr(seen)))

    if one_point:
        explore('one draw', lambda rng: d.sample(rng=rng), [support[0]])
        explore('two draws', lambda rng: [d.sample(rng=rng), d.sample(rng=rng)], [[support[0]] * 2])
        if has_k:
            v = c.probe('k2_on_onepoint', lambda: d.sample(rng=_random.Random(0), k=2))
            if v == support[0]:
                r.count('outside:k2_on_onepoint_returns_bare_event')
    else:
        explore('one draw', lambda rng: d.sample(rng=rng), pos)
        explore('two draws', lambda rng: [d.sample(rng=rng), d.sample(rng=rng)], [[a, b] for a in pos for b in pos])
        if has_k:
            explore('k=2', lambda rng: d.sample(rng=rng, k=2), [[a, b] for a in pos for b in pos])

    # equally seeded real generators give identical sequences (+ conformance of the substitute).
    # The two runs start from two different fixed states of the *global* generator (restored afterwards), so
    # that code which drew from the global generator instead of `rng` gives a deterministic verdict.
    K = 5
    saved_global = _random.getstate()
    try:
        for s in sorted({0, 1, 2, int(seed)}):
            det = dict(det0, seed=s)
            modes = [('successive', lambda rng: [d.sample(rng=rng) for _ in range(K)])]
            if has_k and not one_point:
                modes.append(('k=5', lambda rng: list(d.sample(rng=rng, k=K))))
            for name, draw in modes:
                _random.seed(1000003)
                ok1, s1 = c.call('sample_seeded', lambda: draw(_random.Random(s)), det)
                _random.seed(2000003)
                ok2, s2 = c.call('sample_seeded', lambda: draw(_random.Random(s)), det)
                r.count('executions', 2)
                r.count('transitions')
                r.count('op:sample_seeded')
                if not (ok1 and ok2):
                    continue
                if s1 != s2:
                    c.bad('sample:equal_seeds_different_sequences', dict(det, mode=name, first=repr(s1), second=repr(s2)))
                    continue
                if any(v not in pos for v in s1):
                    c.bad('sample:returned_event_without_positive_probability',
                          dict(det, mode=name, sequence=repr(s1), positive=repr(pos)))
                    continue
                # the same seed through the substitute generator used by the exploration above
                sampling_already_wrong = bool(r.violations) or r.counters.get('violations_new', 0) > 0
                ex = Explorer(bound=None, max_points=16)
                _random.seed(3000003)
                try:
                    s3, trunc = ex.run_one([], draw, real_seed=s)
                    err = None
                except HarnessError:
                    raise
                except Exception as e:
                    s3, trunc, err = None, False, repr(e)[:300]
                r.count('executions')
                if err is not None or trunc or list(s3) != list(s1):
                    if sampling_already_wrong:
                        # sample() already broke a clause on this distribution; the mismatch is a consequence of it
                        c.bad('sample:substitute_generator_run_differs', dict(det, mode=name, real=repr(s1),
                                                                              substitute=repr(s3), error=err))
                        continue
                    raise HarnessError(f'ChoiceRandom(real_seed={s}) does not reproduce random.Random({s}) on {spec!r}: '
                                       f'{s3!r} vs {s1!r} ({err})')
                r.count('conformance_replays')
    finally:
        _random.setstate(saved_global)


# ---------------------------------------------------------------------------------------------
def check_unary(item, tier):
    _, spec, var, seed = item
    c = Ctx(item)
    r = c.r
    r.count('states')
    r.count('kind:' + spec[0])
    ref = _ref_of(spec)
    ok, built = c.call('construct', lambda: build(spec, var), describe(spec))
    if not ok:
        return r
    d, how = built
    r.count('built:' + how.split('[')[0])
    total = sum(ref.values())
    if total == 0:
        # a zero-mass table is not a distribution: record behaviour only
        r.count('outside:zero_mass_input')
        c.probe('zero_mass_normalize', lambda: d.normalize())
        c.probe('zero_mass_sample', lambda: d.sample(rng=_random.Random(0)))
        c.probe('zero_mass_condition', lambda: d.condition(lambda e: 1.0))
        return r
    if not read_back(c, d, spec, ref, how):
        return r
    op_marginalize(c, d, spec, ref, var, tier)
    op_condition(c, d, spec, ref, var)
    op_expectation(c, d, spec, ref)
    op_normalize_scale(c, d, spec, ref)
    op_chain(c, d, spec, ref, var, tier)
    if spec[0] == 'softmax':
        op_softmax(c, spec, var)
    op_sample(c, d, spec, ref, seed)
    if len(spec[1]) == 3 and var % 24 == 7 and total != 1 and spec[0] == 'table':
        r.sample({'distribution': describe(spec, how), 'reference': ref,
                  'normalize': repr(d.normalize()), 'condition_first_two': repr(d.condition(lambda e: e != spec[1][2])),
                  'marginalize_merge_all': repr(d.marginalize(lambda e: 'u'))})
    return r


def check_binary(item, tier):
    _, sa, va, sb, vb, pat = item
    c = Ctx(item)
    r = c.r
    r.count('states')
    r.count('pairs:' + ('different_kinds' if sa[0] != sb[0] else 'same_kind'))
    r.count('overlap:' + pat)
    ra, rb = _ref_of(sa), _ref_of(sb)
    ok, built = c.call('construct', lambda: (build(sa, va), build(sb, vb)), {'A': describe(sa), 'B': describe(sb)})
    if not ok:
        return r
    (A, howa), (B, howb) = built
    det0 = {'A': describe(sa, howa), 'B': describe(sb, howb)}
    posa, posb = positive(ra), positive(rb)
    for name, X, Y, rx, ry in (('A,B', A, B, ra, rb), ('B,A', B, A, rb, ra)):
        det = dict(det0, order=name)
        # joint = product measure
        ok, res = c.call('joint', lambda: X.joint(Y), det)
        if ok and c.same_function('joint', res, o_joint(rx, ry), det):
            c.total_is('joint:mass_is_not_the_product', res, sum(rx.values()) * sum(ry.values()), det)
        # mixture adds pointwise
        ok, res = c.call('mixture', lambda: X | Y, det)
        if ok:
            c.same_function('mixture', res, o_mix(rx, ry), det)
        # conjunction = renormalised pointwise product on the common support
        exp, common = o_and(rx, ry)
        if exp is None:
            c.probe('conjunction_zero_common_mass', lambda: X & Y)
        else:
            ok, res = c.call('conjunction', lambda: X & Y, det)
            if ok and c.same_function('conjunction', res, exp, det, keys_within=set(common)):
                c.total_is('conjunction:not_normalised', res, F(1), det)
    # scaled mixtures (alternating the spelling of the scalar multiplication)
    for i, (wa, wb) in enumerate(MIXW):
        det = dict(det0, weights=[str(wa), str(wb)])
        fa, fb = float(wa), float(wb)
        if (i + vb) % 2:
            fn = lambda: (fa * A) | (fb * B)
        else:
            fn = lambda: (B * fb) | (A * fa)
        ok, res = c.call('scaled_mixture', fn, det)
        if ok:
            c.same_function('scaled_mixture', res, o_mix(ra, rb, wa, wb), det)
    # the augmented spelling of the mixture (on freshly built operands: an in-place operator may change its left operand)
    for name, s1, v1, s2, v2, r1, r2 in (('A|=B', sa, va, sb, vb, ra, rb), ('B|=A', sb, vb, sa, va, rb, ra)):
        def aug():
            Z, W = build(s1, v1)[0], build(s2, v2)[0]
            Z |= W
            return Z
        ok, res = c.call('augmented_mixture', aug, dict(det0, order=name))
        if ok:
            c.same_function('augmented_mixture', res, o_mix(r1, r2), dict(det0, order=name))
    if len(posa) >= 2 and len(posb) >= 2:
        r.nontriv(('joint', sa, sb))
    if any(e in rb and rb[e] > 0 for e in posa):
        r.nontriv(('mix', sa, sb))
    if sum(1 for e in posa if e in rb and rb[e] > 0) >= 2:
        r.nontriv(('and', sa, sb))
    if va % 12 == 5 and vb % 4 == 3 and pat == 'partial' and len(sa[1]) == 3 and len(sb[1]) >= 2 and sa[0] != sb[0]:
        r.sample({'A': describe(sa, howa), 'B': describe(sb, howb), 'A|B': repr(A | B), 'A.joint(B)': repr(A.joint(B)),
                  'reference A|B': o_mix(ra, rb)})
    return r


def check(item, tier):
    import warnings
    with warnings.catch_warnings():
        warnings.simplefilter('ignore')
        if item[0] == 'U':
            return check_unary(item, tier)
        if item[0] == 'B':
            return check_binary(item, tier)
    raise HarnessError(f'unknown item {item!r}')


def replay(rec):
    return check(item_from_record(rec), rec.get('tier', 'quick'))
