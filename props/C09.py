"""C09 -- finite-state-controller values equal the return of executing the controller.

E1 x E2: POMDP specs x stochastic controllers on a lattice (1-3 nodes; Dirac / half-half / quarter rows;
non-degenerate initial node distributions):
 (i)   stochastic_fsc_policy_evaluation_exact vs an exact (Fraction) solve of the (node x state) chain in
       which an episode ends on entering an absorbing state;
 (ii)  StochasticFiniteStateController.run_on: ALL action/observation/state histories up to length L
       (stateless exploration of every generator answer; branch weights give the implementation's history
       probability) vs the probability the controller defines (explicit sum over node paths);
 (iii) bounded policy iteration (seeds + a finite lattice of initial controllers injected through a stub
       generator, sizes 1-2, iteration counts {0,1,3,10}) and gradient ascent (seeds, iteration counts):
       returned strategies are row-stochastic, the reported value is the exact evaluation of the returned
       controller at the initial distribution, and -- by wrapping the module-level evaluator that BPI calls --
       no node's value at any state decreases from one evaluated controller to the next."""
import math
import warnings
from fractions import Fraction as F
from itertools import product

import numpy as np

from mc.run import Res, item_from_record
from mc import pomdpspec, refmdp
from mc.pomdpspec import PSpec, SpecPOMDP
from mc.explore import Explorer

ID = 'C09'
RULE = ("POMDP specs (2 states x 2 actions; kernels from the 6-kernel menu; with / without an absorbing state, incl. absorbing states that "
        "are not zero-reward self-loops) x lattice controllers (1-2 nodes quick, 3 nodes thorough) for (i),(ii) with history length L; "
        "learners on a rotating subset with initial controllers from a 5-pattern stub lattice + real seeds {1,2,VERIF_SEED}. "
        "states = (POMDP, controller) pairs + answer-tree nodes; transitions = evaluator cells compared + history edges + learner "
        "iterations checked. Non-trivial = controller with a non-one-hot initial node distribution and >= 2 distinct histories.")
ASSUMPTIONS = [
    "exact evaluation over Fractions for lattice controllers; float re-implementation (1e-7) for learner outputs; learner rows are distributions up to the LP solver feasibility tolerance (1e-6)",
    "continuous initialisation of the learners cannot be enumerated: replaced by a finite lattice of initial controllers (stub generator for BPI) and a seed menu (stated limit)",
    "the cvxpy/ECOS node-improvement path is not exercised (solver absent in this image)",
    "known finding K3: the evaluator (and BPI's linear program) do not end the episode at absorbing states; on POMDPs where that matters the implementation is compared with the never-ending reference instead",
]
BUDGET = {'quick': 900, 'thorough': 7200}
CHUNK = {'quick': 2, 'thorough': 2}
MANIFEST = {'engines': ['E1-enum', 'E2-explore'],
            'technique': 'bounded-exhaustive controller/POMDP enumeration vs exact chain solve; all controller execution histories explored; learner iterations observed by wrapping the evaluator'}
SLAB = ['int', 'rev', 'str', 'tup']
ALAB = ['ab', 'rev', 'ab', 'rev']
OLAB = ['xy', 'int', 'xy', 'int']


def bounds(tier):
    return {'quick': {'controllers': '<= 2 nodes, rows from {Dirac, 1/2-1/2, 1/4-3/4} (reduced product)', 'history length': 3,
                      'learners': 'every 6th POMDP; BPI sizes 1-2, iterations {0,1,3,10}; GA iterations {0,1,3}'},
            'thorough': {'controllers': '<= 3 nodes', 'history length': 4, 'learners': 'every 2nd POMDP'}}[tier]


def items(tier, seed):
    RP = pomdpspec.REWARD_PATTERNS
    one = F(1)
    gens = [
        pomdpspec.enum_pomdps(2, 2, 1, [RP['mixed']], [(), (1,)], [((0, F(1, 4)), (1, F(3, 4)))], [F(9, 10)], kernel_pairs='some'),
    ]
    # absorbing state 1 pays nothing: where it also self-loops under both actions the POMDP is NOT in the K3 class, so the
    # episode-ending clauses are judged strictly on inputs that do have an absorbing state
    zero_at_1 = lambda s, a: F(0) if s == 1 else F([1, -1][a])
    gens.append(pomdpspec.enum_pomdps(2, 2, 1, [zero_at_1], [(1,)], [((0, F(1, 4)), (1, F(3, 4)))], [F(9, 10)], kernel_pairs='some'))
    if tier == 'thorough':
        gens.append(pomdpspec.enum_pomdps(2, 2, 1, [RP['state']], [(0,)], [((0, F(1, 2)), (1, F(1, 2)))], [F(1, 2)], kernel_pairs='some'))
    yield ('lp_seam', 0, 0)
    i = 0
    step = 4 if tier == 'quick' else 1
    for gen in gens:
        for it in gen:
            i += 1
            # the offset moves with the block of 16 kernel pairs, so that every seed sees every kernel pair (on different transitions)
            if (i + (i - 1) // 16) % step == seed % step:
                yield (it, i % 4, i // step)


# --------------------------------------------------------------------------- controllers on a lattice
def controllers(nA, nO, tier):
    half, q, tq, one, z = F(1, 2), F(1, 4), F(3, 4), F(1), F(0)
    arows = [(one, z), (z, one), (half, half), (q, tq)] if nA == 2 else [(one,)]
    out = []
    # 1 node
    for ar in arows:
        out.append(([ar], [[[(one,)] * nO for _ in range(nA)]], (one,)))
    # 2 nodes: node rows over next node from a menu; initial dists non-degenerate
    nrows = [(one, z), (z, one), (half, half), (q, tq)]
    inits = [(half, half), (q, tq), (one, z)]
    k = 0
    for a0, a1 in product(arows, repeat=2):
        for pat in range(6):
            k += 1
            # pattern decides eta[n][a][o] rows
            eta = [[[nrows[(pat + n + a + 2 * o) % 4] if pat < 4 else nrows[(pat + o) % 2 if n == 0 else 2 + (a + o) % 2]
                     for o in range(nO)] for a in range(nA)] for n in range(2)]
            out.append(([a0, a1], eta, inits[k % 3]))
    if tier == 'thorough':
        n3 = [(one, z, z), (z, half, half), (q, q, half), (z, z, one)]
        for pat in range(8):
            act = [arows[(pat + n) % len(arows)] for n in range(3)]
            eta = [[[n3[(pat + n + a + o) % 4] for o in range(nO)] for a in range(nA)] for n in range(3)]
            out.append((act, eta, (half, q, q)))
    return out


def exact_fsc_value(ps, act, eta, end_at_absorbing):
    """V[n][s]: expected discounted return of running the controller from node n in state s."""
    n, K = ps.n, len(act)
    A = ps.abs_explicit if end_at_absorbing else frozenset()
    g = ps.gamma
    idx = {(k, s): k * n + s for k in range(K) for s in range(n)}
    N = K * n
    M = [[F(1) if i == j else F(0) for j in range(N)] for i in range(N)]
    c = [F(0)] * N
    for k in range(K):
        for s in range(n):
            if s in A:
                continue
            i = idx[k, s]
            for ai, a in enumerate(ps.anames):
                pa = act[k][ai]
                if pa == 0:
                    continue
                c[i] += pa * ps.sa_reward(s, a)
                for ns, pt in ps.T[s][a].items():
                    for oi, o in enumerate(ps.obs):
                        po = ps.O[a, ns].get(o, 0)
                        if po == 0:
                            continue
                        for k2 in range(K):
                            pe = eta[k][ai][oi][k2]
                            if pe:
                                M[i][idx[k2, ns]] -= g * pa * pt * po * pe
    x = refmdp.solve(M, c)
    return [[x[idx[k, s]] for s in range(n)] for k in range(K)]


def float_fsc_value(pomdp, fa, fs, end_at_absorbing):
    T, O, R = pomdp.transition_matrix, pomdp.observation_matrix, pomdp.state_action_reward_matrix
    nA, nS, nO = O.shape
    K = fa.shape[0]
    absb = np.array([bool(pomdp.is_absorbing(s)) for s in pomdp.state_list]) if end_at_absorbing else np.zeros(nS, dtype=bool)
    P = np.zeros((K, nS, K, nS))
    C = np.zeros((K, nS))
    for k in range(K):
        for s in range(nS):
            if absb[s]:
                continue
            for a in range(nA):
                C[k, s] += fa[k, a] * R[s, a]
                for t in range(nS):
                    for o in range(nO):
                        for m in range(K):
                            P[k, s, m, t] += fa[k, a] * T[s, a, t] * O[a, t, o] * fs[k, a, o, m]
    N = K * nS
    V = np.linalg.solve(np.eye(N) - pomdp.discount_rate * P.reshape(N, N), C.reshape(N))
    return V.reshape(K, nS)


def k3_class(ps):
    """absorbing states whose declared dynamics are not zero-reward self-loops (so ending the episode matters)."""
    for s in ps.abs_explicit:
        for a in ps.acts[s]:
            if ps.T[s][a].get(s, 0) != 1 or any(ps.R[s][a][ns] != 0 for ns in ps.T[s][a]):
                return True
    return False


def check_lp_seam(item):
    """The linear-program seam bounded policy iteration solves its node improvement through: `min p.z  s.t.  G z <= h, A z = b`
    with NO bounds other than the rows of G (the improvement margin epsilon is a free variable; near convergence its optimum is
    a tiny negative number).  Every LP of a small lattice with a unique optimum is compared with that optimum."""
    import msdm.algorithms.fscboundedpolicyiteration as bpi
    r = Res()
    # variables (c, eps): maximise eps subject to  eps <= u - c*k,  c = 1   =>  eps* = u - k
    for u in (-1.0, -1e-7, 0.0, 2.0):
        for k in (0.0, 1.0):
            p = np.array([0.0, -1.0])
            G = np.array([[k, 1.0], [-1.0, 0.0]])        # eps + k c <= u ;  -c <= 0
            h = np.array([u, 0.0])
            A = np.array([[1.0, 0.0]])
            b = np.array([1.0])
            r.count('states')
            r.count('transitions')
            try:
                res = bpi.Solvers.scipy_lp(p, G, h, A, b)
                sol = None if res.solution is None else [float(x) for x in res.solution]
            except Exception as e:
                r.violation('lp_seam_exception', {'u': u, 'k': k, 'error': repr(e)[:200], 'optimum': [1.0, u - k]}, item)
                continue
            if sol is None or abs(sol[0] - 1.0) > 1e-9 or abs(sol[1] - (u - k)) > 1e-9:
                r.violation('lp_seam_solution', {'u': u, 'k': k, 'got': sol, 'optimum': [1.0, u - k]}, item)
    r.nontriv('lp_seam')
    return r


def check(item, tier):
    if item[0] == 'lp_seam':
        return check_lp_seam(item)
    import torch
    torch.set_num_threads(1)
    import msdm.algorithms.fscgradientascent as ga
    import msdm.algorithms.fscboundedpolicyiteration as bpi
    from msdm.core.pomdp.finitestatecontroller import StochasticFiniteStateController
    r = Res()
    pitem, li, idx = item
    ps = PSpec(pitem)
    n = ps.n
    with warnings.catch_warnings():
        warnings.simplefilter('ignore')
        np.seterr(all='ignore')
        pomdp = SpecPOMDP(ps, SLAB[li], ALAB[li], OLAB[li], explicit_lists=True)
        sl, al, ol = pomdp.sl, pomdp.al, pomdp.ol
        slist, alist, olist = list(pomdp.state_list), list(pomdp.action_list), list(pomdp.observation_list)
        nA, nO = len(alist), len(olist)
        # map spec order -> implementation order
        aperm = [alist.index(al(a)) for a in ps.anames]
        operm = [olist.index(ol(o)) for o in ps.obs]
        sperm = [slist.index(sl(s)) for s in range(n)]
        k3 = k3_class(ps)
        L = 3 if tier == 'quick' else 4
        for ci, (act, eta, nu) in enumerate(controllers(nA, nO, tier)):
            K = len(act)
            fa = np.zeros((K, nA))
            fs = np.zeros((K, nA, nO, K))
            for k in range(K):
                for ai in range(nA):
                    fa[k, aperm[ai]] = float(act[k][ai])
                    for oi in range(nO):
                        for k2 in range(K):
                            fs[k, aperm[ai], operm[oi], k2] = float(eta[k][ai][oi][k2])
            f0 = np.array([float(x) for x in nu])
            ctx = {'controller': ci, 'action_strategy': act, 'initial_nodes': nu}
            r.count('states')
            # ---------- (i) evaluator
            try:
                ev = ga.stochastic_fsc_policy_evaluation_exact(pomdp, torch.tensor(fa), torch.tensor(fs), fsc_initial_state=torch.tensor(f0))
                Vimpl = ev.state_controller_value.numpy()
            except Exception as e:
                r.violation('evaluator_exception', dict(ctx, error=repr(e)[:300]), item)
                continue
            Vtrue = exact_fsc_value(ps, act, eta, True)
            Vnever = exact_fsc_value(ps, act, eta, False) if k3 else Vtrue
            differs = any(Vtrue[k][s] != Vnever[k][s] for k in range(K) for s in range(n))
            for k in range(K):
                for s in range(n):
                    r.count('transitions')
                    got = float(Vimpl[k, sperm[s]])
                    if abs(got - float(Vtrue[k][s])) > 1e-9 * max(1, abs(float(Vtrue[k][s]))):
                        if differs and abs(got - float(Vnever[k][s])) <= 1e-9 * max(1, abs(float(Vnever[k][s]))):
                            r.violation('evaluator_does_not_end_episode_at_absorbing_state',
                                        dict(ctx, node=k, s=s, got=got, want=Vtrue[k][s]), item, finding='K3')
                        else:
                            r.violation('evaluator_value', dict(ctx, node=k, s=s, got=got, want=Vtrue[k][s], never_ending=Vnever[k][s]), item)
            want_ev = sum(nu[k] * ps.init.get(s, 0) * (Vnever if differs else Vtrue)[k][s] for k in range(K) for s in range(n))
            if abs(float(ev.expected_value) - float(want_ev)) > 1e-9 * max(1, abs(float(want_ev))):
                r.violation('evaluator_expected_value', dict(ctx, got=float(ev.expected_value), want=want_ev), item)
            # ---------- (ii) execution histories
            if ci % 2 == idx % 2 or K == 1:
                check_histories(lambda fa=fa, fs=fs, f0=f0: StochasticFiniteStateController(pomdp, fa.copy(), fs.copy(), f0.copy()),
                                pomdp, ps, act, eta, nu, L, r, item, dict(ctx, reused_controller=(ci % 4 < 2)))
                check_api_tree(lambda fa=fa, fs=fs, f0=f0: StochasticFiniteStateController(pomdp, fa.copy(), fs.copy(), f0.copy()),
                               pomdp, ps, act, eta, nu, 2, r, item, ctx)
        # ---------- (iii) learners
        if idx % (6 if tier == 'quick' else 2) == 0:
            check_learners(pomdp, ps, ga, bpi, r, item, k3, tier)
    if hash(repr(item)) % 30 == 0:
        r.sample({'pomdp': repr(pitem), 'controllers': len(controllers(nA, nO, tier)), 'history_length': L})
    return r


def check_api_tree(mk, pomdp, ps, act, eta, nu, L, r, item, ctx):
    """Probabilities of action/observation histories obtained by walking the history tree depth first through the object API
    (initial_agentstate / action_dist / next_agentstate) of ONE controller object, against the sum over node paths."""
    K = len(act)
    sl, al, ol = pomdp.sl, pomdp.al, pomdp.ol
    fsc = mk()
    got = {}

    def walk(ag, t, key, p):
        if t == L:
            got[key] = got.get(key, 0.0) + p
            return
        ad = dict(fsc.action_dist(ag).items())
        for a in ps.anames:
            pa = float(ad.get(al(a), 0.0))
            if pa <= 0:
                continue
            for o in ps.obs:
                nag = fsc.next_agentstate(ag, al(a), ol(o))
                walk(nag, t + 1, key + ((a, o),), p * pa)
    walk(fsc.initial_agentstate(), 0, (), 1.0)
    # reference: P(a_1..a_L | o_1..o_{L-1}) by explicit sum over node paths (observations are given, so no environment factor)
    want = {}

    def rec(alphas, t, key):
        if t == L:
            want[key] = sum(alphas.values())
            return
        for ai, a in enumerate(ps.anames):
            for oi, o in enumerate(ps.obs):
                nal = {}
                for k, w in alphas.items():
                    pa = act[k][ai]
                    if w == 0 or pa == 0:
                        continue
                    for k2 in range(K):
                        pe = eta[k][ai][oi][k2]
                        if pe:
                            nal[k2] = nal.get(k2, F(0)) + w * pa * pe
                if nal:
                    rec(nal, t + 1, key + ((a, o),))
    rec({k: nu[k] for k in range(K) if nu[k] > 0}, 0, ())
    r.count('transitions', len(want))
    for key, p in want.items():
        if abs(got.get(key, 0.0) - float(p)) > 1e-9:
            r.violation('api_history_probability', dict(ctx, history=repr(key), got=got.get(key, 0.0), want=p), item)
            break


def check_histories(mk, pomdp, ps, act, eta, nu, L, r, item, ctx):
    from mc.explore import ChoiceRandom
    K = len(act)
    A = ps.abs_explicit
    sl, al, ol = pomdp.sl, pomdp.al, pomdp.ol
    got = {}
    ex = Explorer(bound=None, max_points=60, max_execs=20000)

    def body(rng):
        fsc = mk()          # every object under test is created inside the body: an execution is a pure function of its answers
        if ctx.get('reused_controller'):
            # controller objects are reusable: one earlier episode (fair default answers, not explored) must not change the next
            fsc.run_on(pomdp, max_steps=L, rng=ChoiceRandom(Explorer(bound=0, max_points=200)))
        return fsc.run_on(pomdp, max_steps=L, rng=rng)

    def on_exec(out, e, trunc):
        r.count('executions')
        if trunc:
            r.count('truncated_executions')
            return
        key = (pomdp.s_of[out[0].state],) + tuple((pomdp.a_of[st.action], pomdp.s_of[st.nextstate], pomdp.o_of[st.observation]) for st in out[:-1])
        p = 1.0
        for nn, dev, sig, c, w, labels in e.trace:
            p *= (w[c] / math.fsum(w)) if w is not None else 1.0 / nn
        got[key] = got.get(key, 0.0) + p
    ex.explore(body, on_exec)
    r.count('states', ex.states)
    r.count('transitions', ex.transitions)
    if ex.capped:
        r.count('capped_instances')
        return
    # reference: explicit sum over node paths
    want = {}

    def rec(s, t, key, p_env, alphas):
        # alphas: {node: weight} unnormalised joint weight of (history, current node) excluding environment factors
        if t == L or s in A:
            tot = sum(alphas.values())
            if tot > 0:
                want[key] = want.get(key, F(0)) + p_env * tot
            return
        for ai, a in enumerate(ps.anames):
            for ns, pt in ps.T[s][a].items():
                for oi, o in enumerate(ps.obs):
                    po = ps.O[a, ns].get(o, 0)
                    if po == 0:
                        continue
                    nal = {}
                    for k, w in alphas.items():
                        pa = act[k][ai]
                        if w == 0 or pa == 0:
                            continue
                        for k2 in range(K):
                            pe = eta[k][ai][oi][k2]
                            if pe:
                                nal[k2] = nal.get(k2, F(0)) + w * pa * pe
                    if nal:
                        rec(ns, t + 1, key + ((a, ns, o),), p_env * pt * po, nal)
    for s0, p0 in ps.init.items():
        if p0 > 0:
            rec(s0, 0, (s0,), p0, {k: nu[k] for k in range(K) if nu[k] > 0})
    want = {k: v for k, v in want.items() if v > 0}
    if sum(1 for x in nu if x > 0) >= 2 and len(want) >= 2:
        r.nontriv((repr(item), ctx['controller']))
    if set(got) != set(want):
        r.violation('history_set_differs', dict(ctx, missing=[repr(k) for k in set(want) - set(got)][:3],
                                                extra=[repr(k) for k in set(got) - set(want)][:3]), item)
        return
    for k, p in want.items():
        if abs(got[k] - float(p)) > 1e-9 * max(1.0, float(p)):
            r.violation('history_probability', dict(ctx, history=repr(k), got=got[k], want=p), item)
            break


class StubRng:
    """Stands in for numpy's Generator inside BPI: uniform(1, 2, size) answers from a finite pattern lattice."""

    def __init__(self, pattern):
        self.pattern = pattern
        self.calls = 0

    def uniform(self, lo, hi, size=None):
        self.calls += 1
        n = int(np.prod(size))
        base = {0: [1.5], 1: [1.0, 2.0], 2: [2.0, 1.0], 3: [1.0, 1.0, 2.0], 4: [2.0, 1.5, 1.0, 1.0]}[self.pattern]
        vals = [base[(i + self.calls) % len(base)] for i in range(n)]
        return np.array(vals).reshape(size)


def check_learners(pomdp, ps, ga, bpi, r, item, k3, tier):
    import torch
    n = ps.n
    p0 = pomdp.initial_state_vec

    def valid(fa, fs, f0, ctx):
        ok = True
        for name, arr in (('action_strategy', fa), ('node_strategy', fs), ('initial_nodes', f0)):
            arr = np.asarray(arr, dtype=float)
            # the LP solver (HiGHS) works to a feasibility tolerance of 1e-7: entries of -1e-10 are solver noise, not a defect
            if (arr < -1e-6).any() or not np.allclose(arr.sum(-1), 1, atol=1e-6) or np.isnan(arr).any():
                r.violation('learner_returned_invalid_controller', dict(ctx, which=name, array=arr), item)
                ok = False
        return ok

    # ---- bounded policy iteration
    orig_eval = bpi.stochastic_fsc_policy_evaluation_exact
    orig_rng = np.random.default_rng
    for size in (1, 2):
        for iters in (0, 1, 3, 10):
            for init in ([('stub', k) for k in range(5)] + [('seed', s) for s in (1, 2)])[:: (1 if tier == 'thorough' or iters in (3,) else 3)]:
                ctx = {'learner': 'bpi', 'controller_state_count': size, 'iterations': iters, 'init': init}
                seq = []

                def spy(pomdp_, a, s, **kw):
                    out = orig_eval(pomdp_, a, s, **kw)
                    seq.append((np.array(a, dtype=float), np.array(s, dtype=float), out.state_controller_value.numpy().copy()))
                    return out
                bpi.stochastic_fsc_policy_evaluation_exact = spy
                if init[0] == 'stub':
                    np.random.default_rng = lambda seed=None, _k=init[1]: StubRng(_k)
                try:
                    res = bpi.FSCBoundedPolicyIteration(controller_state_count=size, iterations=iters, seed=(init[1] if init[0] == 'seed' else 1)).train_on(pomdp)
                except AssertionError as e:
                    r.violation('bpi_internal_assertion', dict(ctx, error=repr(e)[:200]), item)      # never fires on the pinned tree: not attributed to K3
                    continue
                except Exception as e:
                    r.violation('bpi_exception', dict(ctx, error=repr(e)[:300]), item)
                    continue
                finally:
                    bpi.stochastic_fsc_policy_evaluation_exact = orig_eval
                    np.random.default_rng = orig_rng
                r.count('states')
                r.count('bpi_runs')
                pol = res.policy
                fa, fs, f0 = np.asarray(pol.action_strategy), np.asarray(pol.observation_strategy), np.asarray(pol.initial_state_dist)
                if not valid(fa, fs, f0, ctx):
                    continue
                Vt = float_fsc_value(pomdp, fa, fs, True)
                Vn = float_fsc_value(pomdp, fa, fs, False)
                want_t, want_n = float(f0 @ Vt @ p0), float(f0 @ Vn @ p0)
                r.count('transitions')
                if abs(float(res.value) - want_t) > 1e-7 * max(1, abs(want_t)):
                    if k3 and abs(float(res.value) - want_n) <= 1e-7 * max(1, abs(want_n)):
                        r.violation('bpi_value_does_not_end_episode_at_absorbing_state', dict(ctx, got=float(res.value), want=want_t), item, finding='K3')
                    else:
                        r.violation('bpi_reported_value', dict(ctx, got=float(res.value), want=want_t, never_ending=want_n), item)
                # the per-(node, state) value table reported next to it is the evaluation of the same returned controller
                try:
                    Vrep = np.asarray(res.state_controller_value, dtype=float)
                    Vwant = Vn if k3 else Vt
                    r.count('transitions')
                    if Vrep.shape != Vwant.shape or not np.allclose(Vrep, Vwant, rtol=1e-7, atol=1e-7):
                        r.violation('bpi_reported_value_table', dict(ctx, got=Vrep, want=Vwant), item)
                except Exception as e:
                    r.violation('bpi_exception', dict(ctx, error=repr(e)[:300]), item)
                # monotonicity over the sequence of evaluated controllers that were adopted: consecutive
                # evaluations; compare exact (float re-implementation) values of existing nodes
                prev = None
                for a_, s_, Vimpl in seq:
                    Vx = float_fsc_value(pomdp, a_, s_, not k3)
                    r.count('transitions')
                    if prev is not None:
                        kk = min(prev.shape[0], Vx.shape[0])
                        if (Vx[:kk] < prev[:kk] - 1e-7 * np.maximum(1, np.abs(prev[:kk]))).any():
                            r.violation('bpi_value_decreased', dict(ctx, before=prev, after=Vx), item)
                            break
                    prev = Vx
                if len(seq) >= 3:
                    r.nontriv((repr(item), 'bpi', size, iters, init))
    # ---- gradient ascent
    for size in (1, 2):
        for iters in (0, 1, 3):
            for seed in (1, 2):
                ctx = {'learner': 'gradient_ascent', 'controller_state_count': size, 'iterations': iters, 'seed': seed}
                try:
                    res = ga.FSCGradientAscent(controller_state_count=size, iterations=iters, seed=seed).train_on(pomdp)
                except Exception as e:
                    r.violation('ga_exception', dict(ctx, error=repr(e)[:300]), item)
                    continue
                r.count('states')
                r.count('ga_runs')
                pol = res.policy
                fa = pol.action_strategy.detach().numpy()
                fs = pol.observation_strategy.detach().numpy()
                f0 = pol.initial_state_dist.detach().numpy()
                if not valid(fa, fs, f0, ctx):
                    continue
                Vt = float_fsc_value(pomdp, fa, fs, True)
                Vn = float_fsc_value(pomdp, fa, fs, False)
                want_t, want_n = float(f0 @ Vt @ p0), float(f0 @ Vn @ p0)
                got = float(res.value.expected_value)
                r.count('transitions')
                if abs(got - want_t) > 1e-7 * max(1, abs(want_t)):
                    if k3 and abs(got - want_n) <= 1e-7 * max(1, abs(want_n)):
                        r.violation('ga_value_does_not_end_episode_at_absorbing_state', dict(ctx, got=got, want=want_t), item, finding='K3')
                    else:
                        r.violation('ga_reported_value', dict(ctx, got=got, want=want_t, never_ending=want_n), item)
                if iters >= 1:
                    r.nontriv((repr(item), 'ga', size, iters, seed))


def replay(rec):
    return check(item_from_record(rec), rec.get('tier', 'quick'))
