"""C20 -- built-in domains define well-formed models for every layout and parameter.

Engines E1 x E3: bounded-exhaustive enumeration of (domain, layout, parameters); per instance an
explicit-state BFS over everything reachable from the initial distribution through the REAL
functional interface, an audit of every state and edge, the tabular arrays, and planning.  The
plain grid world is additionally compared, edge by edge, with geometry parsed from the layout by
the harness itself (mc/c20_helpers.py)."""
import math
import warnings

from mc.run import Res, item_from_record, HarnessError, digest, KNOWN
from mc import c20_helpers as H

ID = 'C20'
RULE = ("items = (domain, layout rows, parameter tuple) instances: every rectangular layout of the tier's shapes over the "
        "domain's symbol alphabet with at most k non-default cells and >= 1 start cell (grid world '.#sgx', windy grid "
        "'.#@$^v<>x', heaven-or-hell '.#shgc'), crossed with the primary probability menu (success / wind probability "
        "{0,1/2,1}, coherence {1/2,0.85,1}); the secondary parameters (discount {0.5,0.9,1.0}, step cost, feature "
        "rewards incl. the default None, absorbing features, bump cost, list-vs-string layout) are fully crossed on "
        "layouts of <= 2 cells and rotate deterministically with the layout index elsewhere; tiger: coherence x "
        "discount; load-unload: size x discount; cliff walking: its single fixed instance.  Per instance: BFS from "
        "the initial distribution over all actions (absorbing states audited, not expanded), then every other member "
        "of state_list.  states = BFS states, transitions = positive-probability (s,a,s') edges audited. "
        "Non-trivial = >= 2 reachable non-absorbing states and (a blocked move at a reachable non-absorbing state or "
        "a reachable special cell); distinct = distinct (domain, layout, parameters).")
ASSUMPTIONS = [
    "only inputs the constructors accept and that have >= 1 start cell; rectangular layouts, one symbol per cell, default feature symbols",
    "probabilities in {0,1/2,1}, coherence in {0,1/2,0.85,1}, discount in {0.5,0.9,1.0}; rewards from a small menu with no positive reward on a non-absorbing cell (so undiscounted value iteration cannot diverge upwards)",
    "distributions: |sum-1| <= 1e-9, no negative entries; grid-world probabilities compared with the configured success probability to 1e-12",
    "planning = ValueIteration().plan_on without exception (iteration cap 3000 only when discount = 1, where wind can create traps and the default 1e5 sweeps only cost time); POMDPs additionally QMDP(ValueIteration()) when discount < 1",
    "grid-world oracle geometry is parsed from the layout rows by the harness: top line = largest y; '#' wall, 's' start, 'g' (and 'x' when configured) absorbing",
    "a reachable state (or state_list member) of a layout-based domain must be a position of its layout (cell of the rectangle; load-unload: 0 <= location < nstates); dimensions are taken from the input",
    "the windy / heaven-or-hell position models in mc/c20_helpers.py are used only to decide whether a violation belongs to the input class of a recorded finding",
]
BUDGET = {'quick': 600, 'thorough': 3000}
CHUNK = {'quick': 48, 'thorough': 48}
MANIFEST = {
    'engines': ['E1-enum', 'E3-bfs'],
    'technique': 'bounded-exhaustive layout/parameter enumeration x explicit-state BFS over the real transition functions; '
                 'independent grid geometry as oracle for the plain grid world',
    'level_text': 'every layout of the listed shapes/alphabets with <= k special cells, every reachable state and action',
    'level_note': 'secondary parameters rotate on layouts with > 2 cells; values outside the menus are not covered',
}

# ------------------------------------------------------------------------------------------------
# parameter menus
# ------------------------------------------------------------------------------------------------
PROBS = [0.0, 0.5, 1.0]
PROBS_FULL = [0.0, 0.3, 0.5, 1.0]        # small layouts also get a probability that is not a dyadic fraction
DISCOUNTS = [0.5, 0.9, 1.0]
COHERENCE = [0.5, 0.85, 1.0]
COHERENCE_FULL = [0.0, 0.3, 0.5, 0.85, 1.0]

GW_ALPHA = '.#sgx'
GW_FR = [None, {'g': 10, 'x': -10}, (('g', 0), ('x', -3))]       # None = constructor default ({'g': 0})
GW_ABS = [('g',), ('g', 'x')]
GW_STEP = [-1, 0]

WG_ALPHA = '.#@$^v<>x'
WG_FR = [{'x': -5, '$': 10}, {}, None]                           # None = constructor default
WG_STEP = [-1, 0]
WG_BUMP = [-1, 0]

HH_ALPHA = '.#shgc'
HH_REW = [(-1, 50, -50), (0, 1, -1)]                             # (step_cost, heaven_reward, hell_reward)

# tier -> domain -> list of ((h, w), kmax, cut)
#   kmax: every layout with at most kmax non-default cells (None = the full alphabet on that shape)
#   cut:  None or (cut alphabet, extra): additionally the "cut family" -- one complete row or column filled with
#         every word over the cut alphabet (goals / walls separating the grid), one start cell anywhere else and
#         at most `extra` further cells carrying any symbol
_SMALL = [(1, 1), (1, 2), (2, 1), (1, 3), (3, 1)]
GW_CUT, WG_CUT, HH_CUT, HH_CUT2 = 'g#', '$#', 'hg#', 'h#'
SHAPES = {
    'quick': {
        'gw': [(s, None, None) for s in _SMALL + [(2, 2)]]
              + [((2, 3), 4, (GW_CUT, 0)), ((3, 2), 4, (GW_CUT, 0)), ((3, 3), 3, (GW_CUT, 0))],
        'windy': [(s, None, None) for s in _SMALL]
                 + [((2, 2), None, None), ((2, 3), 3, (WG_CUT, 0)), ((3, 2), 3, (WG_CUT, 0)), ((3, 3), 3, (WG_CUT, 0)),
                    ((1, 4), None, None), ((4, 1), None, None)],
        'hoh': [(s, None, None) for s in _SMALL + [(2, 2)]]
               + [((2, 3), 4, (HH_CUT, 0)), ((3, 2), 4, (HH_CUT, 0)), ((3, 3), 3, (HH_CUT, 0))],
    },
    'thorough': {
        'gw': [(s, None, None) for s in _SMALL + [(2, 2), (2, 3), (3, 2)]]
              + [((3, 3), 5, (GW_CUT, 1)), ((1, 4), None, None), ((4, 1), None, None), ((1, 5), None, None), ((5, 1), None, None),
                 ((3, 4), 3, (GW_CUT, 1)), ((4, 3), 3, (GW_CUT, 1)), ((4, 5), 2, (GW_CUT, 0)), ((5, 4), 2, (GW_CUT, 0))],
        'windy': [(s, None, None) for s in _SMALL + [(2, 2)]]
                 + [((2, 3), 5, None), ((3, 2), 5, None), ((3, 3), 3, (WG_CUT, 1)), ((1, 4), None, None), ((4, 1), None, None),
                    ((1, 5), 4, None), ((5, 1), 4, None), ((3, 4), 3, (WG_CUT, 0)), ((4, 3), 3, (WG_CUT, 0)),
                    ((4, 5), 2, (WG_CUT, 0)), ((5, 4), 2, (WG_CUT, 0))],
        'hoh': [(s, None, None) for s in _SMALL + [(2, 2), (2, 3), (3, 2)]]
               + [((3, 3), 4, (HH_CUT, 1)), ((1, 4), None, None), ((4, 1), None, None), ((1, 5), None, None), ((5, 1), None, None),
                  ((3, 4), 3, (HH_CUT, 0)), ((4, 3), 3, (HH_CUT, 0)), ((4, 5), 2, (HH_CUT2, 0)), ((5, 4), 2, (HH_CUT2, 0))],
    },
}
FULL_CELLS = 2          # layouts with at most this many cells get the full Cartesian product of secondary parameters
LOADUNLOAD_SIZES = {'quick': [1, 2, 3, 4, 5], 'thorough': [1, 2, 3, 4, 5, 6, 7, 8]}
TIGER_COHERENCE = [0.0, 0.5, 0.85, 1.0, 0.875, 0.125, 1 / 3, 0.999]
ALPHA = {'gw': (GW_ALPHA, 's'), 'windy': (WG_ALPHA, '@'), 'hoh': (HH_ALPHA, 's')}


def bounds(tier):
    out = {'probabilities': PROBS, 'coherence': COHERENCE, 'discount': DISCOUNTS,
           'tiger': {'coherence': TIGER_COHERENCE, 'discount': DISCOUNTS},
           'loadunload': {'nstates': LOADUNLOAD_SIZES[tier], 'discount': DISCOUNTS},
           'cliffwalking': 'the single fixed 4x12 instance',
           'layouts': {}}
    for dom, shapes in SHAPES[tier].items():
        alpha, need = ALPHA[dom]
        out['layouts'][dom] = {
            'alphabet': alpha, 'start_symbol': need,
            'shapes': {
                f'{h}x{w}': {'max_non_default_cells': ('all' if k is None else k),
                             'layouts_with_start': H.count_layouts(h, w, len(alpha), k, 1),
                             'cut_family': (None if cut is None else
                                            {'line_alphabet': cut[0], 'extra_cells': cut[1],
                                             'additional_layouts': sum(1 for _ in H.cut_layouts(h, w, alpha, '.', cut[0], cut[1], need, k))})}
                for (h, w), k, cut in shapes}}
    out['note'] = ('quick does not cover the full alphabet on 2x3 / 3x2 / 3x3 grids: it is complete up to the stated number of '
                   'non-default cells per shape; layouts with <= 2 cells get the full Cartesian product of secondary parameters')
    return out


# ------------------------------------------------------------------------------------------------
# enumeration
# ------------------------------------------------------------------------------------------------
def _mix(i, seed):
    """deterministic decorrelating index (multiplicative hashing) -- rotation only"""
    return (((i + seed) * 0x9E3779B1) & 0xFFFFFFFF) >> 7


def gw_params(i, seed, full):
    if full:
        for p in PROBS_FULL:
            for sc in GW_STEP:
                for g in DISCOUNTS:
                    for fr in range(len(GW_FR)):
                        for ab in range(len(GW_ABS)):
                            yield (p, sc, g, fr, ab, (i + fr + ab) % 2)
        return
    k = _mix(i, seed)
    for j, p in enumerate(PROBS):
        yield (p, GW_STEP[k % 2], DISCOUNTS[(k // 2 + j) % 3], (k // 6 + j) % 3, (k // 18) % 2, (k // 36) % 2)


def wg_params(i, seed, full):
    if full:
        for p in PROBS_FULL:
            for fr in range(len(WG_FR)):
                for sc in WG_STEP:
                    for b in WG_BUMP:
                        for g in DISCOUNTS:
                            yield (p, fr, sc, b, g)
        return
    k = _mix(i, seed)
    for j, p in enumerate(PROBS):
        yield (p, (k + j) % 3, WG_STEP[(k // 3) % 2], WG_BUMP[(k // 6) % 2], DISCOUNTS[(k // 12 + j) % 3])


def hh_params(i, seed, full):
    if full:
        for c in COHERENCE_FULL:
            for g in DISCOUNTS:
                for rw in range(len(HH_REW)):
                    yield (c, g, rw)
        return
    k = _mix(i, seed)
    for j, c in enumerate(COHERENCE):
        yield (c, DISCOUNTS[(k + j) % 3], (k // 3) % 2)


PARAMS = {'gw': gw_params, 'windy': wg_params, 'hoh': hh_params}


# a few small layouts built with NOTHING but the layout: every other parameter takes the constructor's default
DEFAULT_LAYOUTS = {
    'gw': [('s.g',), ('s#', '.g'), ('sx.', '..g')],
    'windy': [('@.$',), ('@>', '.$'), ('@^.', 'x.$')],
    'hoh': [('s.c', 'h.g'), ('hsg', '.c.')],
}
# the documented defaults, as the harness reads them from the signatures
DEFAULT_VALUES = {
    'gw': lambda as_list: (1.0, -1, 1.0, 0, 0, as_list),        # success_prob, step_cost, discount_rate, GW_FR[0]=None, GW_ABS[0]
    'windy': lambda _: (0.5, 2, -1, -1, 0.99),                  # wind_probability, WG_FR[2]=None, step_cost, wall_bump_cost, discount_rate
    'hoh': lambda _: (0.95, 0.95, 0),                           # coherence, discount_rate, HH_REW[0] = (-1, 50, -50)
}


def resolved(item):
    """A defaults item with the documented default values written out (what everything but the constructor call uses)."""
    dom, rows, prm = item
    if prm and prm[0] == 'defaults':
        return (dom, rows, DEFAULT_VALUES[dom](prm[1]))
    return item


def items(tier, seed):
    yield ('cliff', (), ())
    for dom, lays in DEFAULT_LAYOUTS.items():
        for j, rows in enumerate(lays):
            yield (dom, rows, ('defaults', j % 2))
    for c in TIGER_COHERENCE:
        for g in DISCOUNTS:
            yield ('tiger', (), (c, g))
    for n in LOADUNLOAD_SIZES[tier]:
        for g in DISCOUNTS:
            yield ('loadunload', (), (n, g))
    # interleave the three grid domains shape by shape (simplest first)
    shapes = SHAPES[tier]
    nmax = max(len(v) for v in shapes.values())
    counters = {d: 0 for d in shapes}
    for si in range(nmax):
        for dom in ('gw', 'windy', 'hoh'):
            if si >= len(shapes[dom]):
                continue
            (h, w), k, cut = shapes[dom][si]
            alpha, need = ALPHA[dom]
            gen = H.layouts(h, w, alpha, '.', k, need)
            if cut is not None:
                import itertools
                gen = itertools.chain(gen, H.cut_layouts(h, w, alpha, '.', cut[0], cut[1], need, k))
            for rows in gen:
                i = counters[dom]
                counters[dom] += 1
                for prm in PARAMS[dom](i, seed, h * w <= FULL_CELLS):
                    yield (dom, rows, prm)


# ------------------------------------------------------------------------------------------------
# building the real objects
# ------------------------------------------------------------------------------------------------
def build(item):
    """-> (domain object, is_pomdp).  Raises whatever the constructor raises."""
    dom, rows, prm = item
    if prm and prm[0] == 'defaults':
        if dom == 'gw':
            from msdm.domains import GridWorld
            return GridWorld(list(rows) if prm[1] else '\n'.join(rows)), False
        if dom == 'windy':
            from msdm.domains.gridmdp.windygridworld import WindyGridWorld
            return WindyGridWorld('\n'.join(rows)), False
        from msdm.domains.heavenorhell import HeavenOrHell
        return HeavenOrHell(grid='\n'.join(rows)), True
    if dom == 'gw':
        from msdm.domains import GridWorld
        p, sc, g, fr, ab, as_list = prm
        fr = GW_FR[fr]
        if isinstance(fr, dict):
            fr = dict(fr)
        return GridWorld(tile_array=(list(rows) if as_list else '\n'.join(rows)), feature_rewards=fr,
                         absorbing_features=GW_ABS[ab], step_cost=sc, success_prob=p, discount_rate=g), False
    if dom == 'windy':
        from msdm.domains.gridmdp.windygridworld import WindyGridWorld
        p, fr, sc, b, g = prm
        fr = WG_FR[fr]
        kw = {} if fr is None else {'feature_rewards': dict(fr)}
        return WindyGridWorld(grid='\n'.join(rows), step_cost=sc, wall_bump_cost=b, wind_probability=p,
                              discount_rate=g, **kw), False
    if dom == 'hoh':
        from msdm.domains.heavenorhell import HeavenOrHell
        c, g, rw = prm
        sc, hv, hl = HH_REW[rw]
        return HeavenOrHell(coherence=c, discount_rate=g, step_cost=sc, heaven_reward=hv, hell_reward=hl,
                            grid='\n'.join(rows)), True
    if dom == 'tiger':
        from msdm.domains.tiger import Tiger
        c, g = prm
        return Tiger(coherence=c, discount_rate=g), True
    if dom == 'loadunload':
        from msdm.domains.loadunload import LoadUnload
        n, g = prm
        return LoadUnload(nstates=n, discount_rate=g), True
    if dom == 'cliff':
        from msdm.domains.cliffwalking import CliffWalking
        return CliffWalking(), False
    raise HarnessError(f'unknown domain {dom!r}')


# ------------------------------------------------------------------------------------------------
# class predicates of recorded findings (decided from the INPUT with the harness' own models)
# ------------------------------------------------------------------------------------------------
F_DEFAULT_FR = 'C20-windy-default-feature-rewards'
F_ABS_EXIT = 'C20-absorbing-exit-outside-inferred-state-list'
F_ZERO_SUCC = 'C20-zero-probability-successor-outside-state-list'


class InputClass:
    """Which recorded-finding input classes the item belongs to, and the cells concerned."""

    def __init__(self, item):
        dom, rows, prm = item
        self.dom = dom
        self.default_fr = dom == 'windy' and WG_FR[prm[1]] is None
        self.goal_exit_cells = set()
        self.zero_exit_cells = set()
        if dom == 'windy':
            m = H.WindyModel(rows, prm[0])
            R = m.reachable()
            self.goal_exit_cells = m.goal_exits(R)
            self.zero_exit_cells = m.zero_exits(R)
        elif dom == 'hoh':
            m = H.HoHModel(rows)
            R = m.reachable()
            self.goal_exit_cells = m.goal_exits(R)

    @staticmethod
    def cell(state):
        try:
            return (state.x, state.y)
        except AttributeError:
            return None

    def finding_for(self, pr, au):
        """finding id the problem `pr` is attributed to, or None (= a new violation)"""
        if self.default_fr:
            # WindyGridWorld constructed with feature_rewards=None: its transition function dereferences None
            if pr.exc is not None and isinstance(pr.exc, AttributeError) and "'NoneType' object has no attribute 'get'" in str(pr.exc):
                return F_DEFAULT_FR
        if self.dom not in ('windy', 'hoh'):
            return None
        if pr.kind == 'successor_outside_state_list':
            s, _a = pr.where
            if s in au.absorbing and s in au.reached and self.cell(pr.key) in self.goal_exit_cells:
                return F_ABS_EXIT
            return None
        if pr.exc is not None and isinstance(pr.exc, KeyError) and (pr.where or '').startswith(('array:', 'plan:')):
            c = self.cell(pr.key)
            if c is None:
                return None
            pos = {ns for (s, a, ns) in au.outside_pos if s in au.absorbing}
            zero = {ns for (s, a, ns) in au.outside_zero}
            if pr.key in pos and c in self.goal_exit_cells:
                return F_ABS_EXIT
            if pr.key in zero and pr.key not in pos and c in self.zero_exit_cells:
                return F_ZERO_SUCC
        return None


# ------------------------------------------------------------------------------------------------
# plain grid world: the semantic clauses
# ------------------------------------------------------------------------------------------------
def gw_semantics(item, dom, au, r):
    _, rows, (p, sc, g, fr_i, ab_i, _as_list) = item
    fr = GW_FR[fr_i]
    fr = {'g': 0} if fr is None else dict(fr)
    geo = H.GWGeometry(rows, absorbing=GW_ABS[ab_i])
    T = H.GW_TERMINAL
    n_checked = 0

    def bad(kind, **d):
        r.violation('gridworld:' + kind, d, item)

    for (s, a), pos in au.edges.items():
        try:
            c = H.gw_cell(s)
            dxy = (a.get('dx', 0), a.get('dy', 0))
        except Exception as e:
            bad('state_or_action_not_a_cell', state=repr(s), action=repr(a), error=repr(e))
            continue
        if c != T and not geo.inside(c):
            bad('state_off_grid', state=c)
            continue
        if c in geo.walls:
            continue            # no agent is ever inside a wall; only the generic audit applies
        got = {}
        for ns, q in pos.items():
            got[H.gw_cell(ns)] = got.get(H.gw_cell(ns), 0.0) + q
        ctx = dict(cell=c, action=dxy, got={repr(k): v for k, v in got.items()})
        n_checked += 1
        if c == T or c in geo.absorbing:
            if set(got) != {T}:
                bad('absorbing_cell_not_to_terminal', **ctx)
            for ns in pos:
                rew = au.rewards.get((s, a, ns))
                if rew is not None and rew != 0:
                    bad('terminal_transition_reward_nonzero', reward=rew, **ctx)
            continue
        tgt = (c[0] + dxy[0], c[1] + dxy[1])
        for n in got:
            if n == T:
                bad('non_absorbing_cell_to_terminal', **ctx)
                continue
            if abs(n[0] - c[0]) + abs(n[1] - c[1]) > 1:
                bad('moved_more_than_one_cell', **ctx)
            if n != c and n != tgt:
                bad('moved_not_as_commanded', **ctx)
            if not geo.inside(n):
                bad('left_the_grid', **ctx)
            elif n in geo.walls and n != c:
                bad('entered_wall', **ctx)
        exp = H.gw_expected(geo, c, dxy, p)
        if set(exp) != set(got) or any(abs(exp[k] - got[k]) > 1e-12 for k in exp):
            bad('success_probability', expected={repr(k): v for k, v in exp.items()}, success_prob=p, **ctx)
        for ns in pos:
            n = H.gw_cell(ns)
            rew = au.rewards.get((s, a, ns))
            if rew is None or n == T or not geo.inside(n):
                continue
            want = sc + fr.get(geo.sym[n], 0)
            if abs(rew - want) > 1e-12:
                bad('reward_not_step_cost_plus_entered_feature', reward=rew, expected=want, entered=n,
                    feature=geo.sym[n], **ctx)
    r.count('gridworld_state_actions_compared_with_own_geometry', n_checked)
    # non-triviality, measured on the harness' geometry
    reach = {H.gw_cell(s) for s in au.reached}
    live = [c for c in reach if c != T and c not in geo.absorbing]
    special = any(geo.sym.get(c, '.') not in '.s' for c in reach if c != T)
    blocked = any((not geo.inside((c[0] + d[0], c[1] + d[1]))) or (c[0] + d[0], c[1] + d[1]) in geo.walls
                  for c in live for d in ((1, 0), (-1, 0), (0, 1), (0, -1)))
    return len(live) >= 2 and (special or blocked)


def state_bound(item):
    """Generous bound on the number of reachable states the layout can support (cells x hidden
    configurations x 4): a BFS that exceeds it has left the layout and is cut off."""
    dom, rows, prm = item
    if rows:
        return 8 * (len(rows) * len(rows[0]) + 2)
    if dom == 'loadunload':
        return 8 * (prm[0] + 2)
    if dom == 'cliff':
        return 8 * 50
    return 64


def layout_bounds(item, au, r):
    """A model is not well-formed if it puts the agent at a position that its layout does not have
    (windy / cliff / heaven-or-hell: a cell of the rectangular layout; load-unload: 0 <= location <
    nstates).  Dimensions come from the item, not from the object."""
    dom, rows, prm = item
    if dom in ('windy', 'hoh'):
        w, h = len(rows[0]), len(rows)
    elif dom == 'cliff':
        w, h = 12, 4
    elif dom == 'loadunload':
        w, h = prm[0], None
    else:
        return
    states = list(au.reached) + [s for s in (au.state_list or []) if s not in au.reached]
    for s in states:
        try:
            ok = (0 <= s.location < w) if h is None else (0 <= s.x < w and 0 <= s.y < h)
        except Exception:
            ok = False
        if not ok:
            r.violation('state_outside_layout', {'state': repr(s), 'width': w, 'height': h}, item)
            return


def generic_nontrivial(item, au):
    """>= 2 reachable non-absorbing positions (grid domains: distinct cells; tiger: hidden states) and
    a blocked displacing move at such a state, or a reachable special cell.  Measured on the BFS."""
    dom, rows, prm = item
    live = [s for s in au.reached if s not in au.absorbing]
    if dom == 'tiger':
        return len(live) >= 2
    pos = {(getattr(s, 'x', None), getattr(s, 'y', None), getattr(s, 'location', None)) for s in live}
    if len(pos) < 2:
        return False
    special = False
    if rows:
        h = len(rows)
        for s in au.reached:
            ri = s.y if dom == 'hoh' else h - 1 - s.y
            if 0 <= ri < h and 0 <= s.x < len(rows[0]) and rows[ri][s.x] not in '.s@':
                special = True
                break
    blocked = any(getattr(a, 'dx', 0) or getattr(a, 'dy', 0) or getattr(a, 'dlocation', 0) for a in au.self_loops)
    return bool(special or blocked)


# ------------------------------------------------------------------------------------------------
# check
# ------------------------------------------------------------------------------------------------
def check(item, tier):
    import numpy as np
    r = Res()
    dom, rows, prm = item
    with warnings.catch_warnings():
        warnings.simplefilter('ignore')
        np.seterr(all='ignore')
        try:
            obj, pomdp = build(item)
        except HarnessError:
            raise
        except (AssertionError, ValueError) as e:      # the constructor rejects the input: out of scope
            r.count('rejected')
            # every generated layout is rectangular with a start cell: none is rejected on the pinned tree.  A rejection is outside
            # the statement ("accepted by ..."), but it silently shrinks what was covered: noted, and the run is not called exhaustive
            r.count('capped_instances')
            r.notes.setdefault('constructor_rejected_a_generated_input', {'item': repr(item)[:400], 'error': repr(e)[:200]})
            r.outcome(('rejected', dom, type(e).__name__))
            return r
        except Exception as e:                         # a crash is not a rejection
            r.violation('constructor_exception', {'error': repr(e)[:300]}, item)
            return r
        if prm and prm[0] == 'defaults':
            r.count('instances_built_with_default_parameters')
            raw_item, item = item, resolved(item)
            dom, rows, prm = item
            if abs(float(obj.discount_rate) - float(prm[2] if dom == 'gw' else prm[4] if dom == 'windy' else prm[1])) > 0:
                r.violation('default_discount_rate_differs_from_the_documented_default',
                            {'got': float(obj.discount_rate), 'domain': dom}, raw_item)
        r.count('instances')
        r.count('instances:' + dom)
        discount = float(obj.discount_rate)
        au = H.audit(obj, pomdp=pomdp, plan=True, vi_cap=(3000 if discount >= 1 else None),
                     max_states=state_bound(item))
        r.count('states', au.n_states)
        r.count('transitions', au.n_edges)
        r.count('state_action_pairs', au.n_sa)
        r.count('extra_state_list_members_audited', au.n_extra_states)
        r.count('observation_dists', au.n_obs)
        r.maxi('depth', au.depth)
        r.maxi('states_per_instance', au.n_states)
        if au.planned:
            r.count('planned')
            if au.vi_converged is False:
                r.count('vi_hit_iteration_cap')
        cls = None
        seen_kinds = {}
        for pr in au.problems:
            if cls is None:
                cls = InputClass(item)
            f = cls.finding_for(pr, au)
            listed = f is not None and f in KNOWN
            k = f if listed else (pr.kind, f)       # a listed finding is counted once per input
            seen_kinds[k] = seen_kinds.get(k, 0) + 1
            if seen_kinds[k] > (1 if listed else 2):
                continue
            r.violation(pr.kind, pr.detail, item, finding=f)
        layout_bounds(item, au, r)
        if dom == 'gw':
            nt = gw_semantics(item, obj, au, r)
        else:
            nt = generic_nontrivial(item, au)
        if nt:
            r.nontriv(item)
        r.outcome((dom, au.n_states, au.n_edges, au.depth, len(au.absorbing), bool(au.problems)))
        if digest(item) % 4000 == 0 or dom in ('cliff',):
            r.sample({'item': repr(item), 'bfs_states': au.n_states, 'edges': au.n_edges, 'depth': au.depth,
                      'state_list': None if au.state_list is None else len(au.state_list),
                      'absorbing_reached': len(au.absorbing), 'problems': [p.kind for p in au.problems][:5],
                      'vi_converged': au.vi_converged})
    return r


def replay(rec):
    return check(item_from_record(rec), rec.get('tier', 'quick'))
