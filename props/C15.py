"""C15 -- augmented sub-tasks and options preserve the base MDP and stop at their goals.

E1 (+E2): (A) base MDPs of several classes x EVERY subset of the overridable components of `augment`,
each non-overridden component compared with the base on all states;  (B) PlanToSubgoalOption.sub_task
compared component-wise with a reference sub-task spec, and its planning result with that spec's exact
optimum;  (C) Option.run_on from every state x policies x termination sets x step limits, ALL roll-outs
(full branching of the generator answers);  (D) the semi-MDP outcome distribution of an option recomputed
from its own (re-run, seeded) simulations, primitive actions, marginals."""
import math
import warnings
from fractions import Fraction as F
from itertools import combinations, product

import numpy as np

from mc.run import Res, item_from_record
from mc import refmdp, build
from mc.refmdp import Spec, NEG_INF
from mc.explore import Explorer

ID = 'C15'
RULE = ("(A) MDP specs (n=2 Cartesian reduced, gamma in {1/2,9/10,1}) x 3 base classes (functional-interface subclass, QuickTabularMDP, "
        "non-tabular QuickMDP) x all 2^7 (2^5) subsets of overridden components; (B) n=3 chain specs x subgoal sets x initial sets x "
        "pseudo-reward caps {inf,0,-1} x include_mdp_absorbing_states; (C) n=3 specs x 3 option policies x 4 termination sets x max_steps "
        "1..5 x every start state x all roll-outs; (D) semi-MDPs with 2 options x n_option_simulations 1..3 x seeds {0,1} x every state. "
        "states = distinct (input, configuration) cases; transitions = component comparisons / roll-outs. Non-trivial = (A) subset "
        "overrides >= 1 and leaves >= 1 component, (C) >= 2 roll-outs.")
ASSUMPTIONS = [
    "Option.run_on's step-limit clause is judged leniently by one step: raising is accepted iff the roll-out had not terminated within max_steps-2 steps (a run that ends legitimately in exactly max_steps-1 steps also raises; noted in DESIGN as O1, not a violation of the statement)",
    "sub-task planning results compared with the exact optimum for discounted sub-tasks only (undiscounted ones are compared component-wise)",
    "semi-MDP simulations are reproduced by calling run_simulations again with the same seed in the same process",
]
BUDGET = {'quick': 900, 'thorough': 7200}
CHUNK = {'quick': 4, 'thorough': 4}
MANIFEST = {'engines': ['E1-enum', 'E2-explore'],
            'technique': 'bounded-exhaustive enumeration of override subsets / option configurations on the real code, all option roll-outs explored, vs reference sub-task specs'}
SLAB = ['int', 'str', 'tup', 'fd']
ALAB = ['ab', 'rev', 'rev', 'fd']
COMPONENTS = ['initial_state_dist', 'actions', 'next_state_dist', 'reward', 'is_absorbing', 'state_list', 'action_list']


def bounds(tier):
    return {'quick': 'A: every 3rd spec; B/C/D: every 4th chain spec; max_steps 1..5; sims 1..3',
            'thorough': 'A: all specs; B/C/D: all chain specs'}[tier]


def items(tier, seed):
    i = 0
    specs = list(build.enum_mdps(2, [('a',), ('a', 'b')], 1, [F(-1), F(1)], [(), (1,)], [build.INIT_MENU[2][2]], [F(1, 2), F(9, 10)]))
    specs += list(build.enum_mdps(2, [('a', 'b')], 0, [F(-1), F(0)], [(1,)], [build.INIT_MENU[2][0]], [F(1)]))
    step = 9 if tier == 'quick' else 1
    for it in specs[(seed % step)::step]:
        i += 1
        yield ('A', it, i % 4, i % 3)
    chain = list(build.chain_mdps(3, [F(1, 2), F(9, 10), F(1)], [F(-1), F(0), F(1)]))
    step = 97 if tier == 'quick' else 6
    for it in chain[(seed % step)::step]:
        i += 1
        yield ('B', it, i % 4, 0)
        yield ('C', it, i % 4, 0)
        yield ('D', it, i % 4, 0)


# --------------------------------------------------------------------------- (A) augment
def check_A(item, r):
    from msdm.core.semimdp.option import augment
    from msdm.core.mdp import QuickTabularMDP, QuickMDP
    from msdm.core.distributions import DictDistribution
    _, spec_item, li, ci = item
    spec = Spec(spec_item)
    base = build.SpecMDP(spec, SLAB[li], ALAB[li])
    sl, al = base.sl, base.al
    if ci == 1:
        base = QuickTabularMDP(next_state_dist=base.next_state_dist, reward=base.reward, actions=base.actions,
                               initial_state_dist=base.initial_state_dist, is_absorbing=base.is_absorbing,
                               discount_rate=float(spec.gamma))
    elif ci == 2:
        base = QuickMDP(next_state_dist=base.next_state_dist, reward=base.reward, actions=base.actions,
                        initial_state_dist=base.initial_state_dist, is_absorbing=base.is_absorbing, discount_rate=float(spec.gamma))
    # a second base MDP of the same Python class (other rewards, other discount) with its own overrides: derived MDPs of
    # both are alive at the same time and must not influence each other
    sib_T = tuple(tuple((a, d, (tuple(x - 3 for x in rw) if isinstance(rw, tuple) else rw - 3)) for a, d, rw in row) for row in spec_item[2])
    spec2 = Spec(spec_item[:2] + (sib_T,) + spec_item[3:5] + (spec.gamma / 2,))
    base2 = build.SpecMDP(spec2, SLAB[li], ALAB[li])
    if ci == 1:
        base2 = QuickTabularMDP(next_state_dist=base2.next_state_dist, reward=base2.reward, actions=base2.actions,
                                initial_state_dist=base2.initial_state_dist, is_absorbing=base2.is_absorbing,
                                discount_rate=float(spec2.gamma))
    elif ci == 2:
        base2 = QuickMDP(next_state_dist=base2.next_state_dist, reward=base2.reward, actions=base2.actions,
                         initial_state_dist=base2.initial_state_dist, is_absorbing=base2.is_absorbing, discount_rate=float(spec2.gamma))
    over2 = {
        'initial_state_dist': lambda: DictDistribution({sl(0): 1.0}),
        'actions': lambda s: (al('a'), 'other'),
        'next_state_dist': lambda s, a: DictDistribution({sl(0): 1.0}),
        'reward': lambda s, a, ns: 7.0,
        'is_absorbing': lambda s: s == sl(spec.n - 1),
        'state_list': ('only',),
        'action_list': ('noop2',),
    }
    tabular = ci != 2
    states = [sl(s) for s in range(spec.n)]
    if tabular and (li + ci) % 2 == 0:
        # the base MDP's arrays have already been computed (e.g. it was planned on) before it is augmented
        base.transition_matrix, base.reward_matrix, base.absorbing_state_vec, base.action_matrix, base.initial_state_vec
        base.state_action_reward_matrix, base.reachable_states()
    over = {
        'initial_state_dist': lambda: DictDistribution({sl(spec.n - 1): 1.0}),
        'actions': lambda s: (al('a'),),
        'next_state_dist': lambda s, a: DictDistribution({s: 1.0}),
        'reward': lambda s, a, ns: 42.0,
        'is_absorbing': lambda s: s == sl(0),
    }
    if tabular:
        over['state_list'] = tuple(reversed(tuple(base.state_list))) + ('extra',)
        over['action_list'] = tuple(reversed(tuple(base.action_list))) + ('noop',)
    comps = [c for c in COMPONENTS if c in over]

    def view(m, actions_of):
        """observable behaviour of every component on all states"""
        v = {'discount_rate': m.discount_rate,
             'initial_state_dist': dict(m.initial_state_dist().items()),
             'actions': {s: tuple(m.actions(s)) for s in states},
             'is_absorbing': {s: bool(m.is_absorbing(s)) for s in states},
             'next_state_dist': {(s, a): dict(m.next_state_dist(s, a).items()) for s in states for a in actions_of(s)},
             'reward': {(s, a, ns): float(m.reward(s, a, ns)) for s in states for a in actions_of(s) for ns in base_succ[s, a]}}
        if tabular:
            v['state_list'] = tuple(m.state_list)
            v['action_list'] = tuple(m.action_list)
        return v
    base_actions = lambda s: tuple(base.actions(s))
    base_succ = {(s, a): [ns for ns, p in base.next_state_dist(s, a).items()] for s in states for a in base_actions(s)}
    bview = view(base, base_actions)
    # the expected view of a fully overridden MDP (every function replaced)
    class _O:
        discount_rate = base.discount_rate
    oview = {'discount_rate': base.discount_rate,
             'initial_state_dist': dict(over['initial_state_dist']().items()),
             'actions': {s: over['actions'](s) for s in states},
             'is_absorbing': {s: over['is_absorbing'](s) for s in states},
             'next_state_dist': {(s, a): dict(over['next_state_dist'](s, a).items()) for s in states for a in base_actions(s)},
             'reward': {(s, a, ns): 42.0 for s in states for a in base_actions(s) for ns in base_succ[s, a]}}
    if tabular:
        oview['state_list'] = over['state_list']
        oview['action_list'] = over['action_list']
    oview2 = {'discount_rate': base.discount_rate,
              'initial_state_dist': dict(over2['initial_state_dist']().items()),
              'actions': {s: over2['actions'](s) for s in states},
              'is_absorbing': {s: over2['is_absorbing'](s) for s in states},
              'next_state_dist': {(s, a): dict(over2['next_state_dist'](s, a).items()) for s in states for a in base_actions(s)},
              'reward': {(s, a, ns): 7.0 for s in states for a in base_actions(s) for ns in base_succ[s, a]}}
    if tabular:
        oview2['state_list'] = over2['state_list']
        oview2['action_list'] = over2['action_list']
    nest_i = [li + ci]
    for k in range(len(comps) + 1):
        for sub in combinations(comps, k):
            r.count('states')
            try:
                aug = augment(base, **{c: over[c] for c in sub})
                got = view(aug, base_actions)
            except BaseException as e:
                r.violation('augment_exception', {'overridden': sub, 'error': repr(e)[:300], 'class': type(base).__name__}, item)
                continue
            for c in bview:
                want = oview[c] if c in sub else bview[c]
                r.count('transitions')
                if got[c] != want:
                    r.violation('augment_component_differs', {'overridden': sub, 'component': c, 'class': type(base).__name__,
                                                               'got': repr(got[c])[:300], 'want': repr(want)[:300]}, item)
            # a derived MDP is an MDP: derive again from it (nothing, or one rotating component with other functions) and look
            # at every component of the result -- overridden twice, once at either level, or never
            nest_i[0] += 1
            for sub2 in ((), (comps[nest_i[0] % len(comps)],)):
                try:
                    aug_n = augment(aug, **{c: over2[c] for c in sub2})
                    got_n = view(aug_n, base_actions)
                except BaseException as e:
                    r.violation('augment_exception', {'overridden': sub, 'then_overridden': sub2, 'error': repr(e)[:300],
                                                      'class': type(base).__name__}, item)
                    continue
                r.count('transitions')
                for c in bview:
                    want = oview2[c] if c in sub2 else (oview[c] if c in sub else bview[c])
                    if got_n[c] != want:
                        r.violation('augment_of_a_derived_mdp_component_differs',
                                    {'overridden': sub, 'then_overridden': sub2, 'component': c, 'class': type(base).__name__,
                                     'got': repr(got_n[c])[:300], 'want': repr(want)[:300]}, item)
            # derive a second MDP (other base instance of the same class, same overridden components, other functions),
            # then look at the first one again
            try:
                aug2 = augment(base2, **{c: over2[c] for c in sub})
                aug2.discount_rate, aug2.initial_state_dist()
                again = view(aug, base_actions)
                r.count('transitions')
                for c in bview:
                    if again[c] != got[c]:
                        r.violation('augment_earlier_derived_mdp_changed_by_a_later_one',
                                    {'overridden': sub, 'component': c, 'class': type(base).__name__,
                                     'before': repr(got[c])[:300], 'after': repr(again[c])[:300]}, item)
                        break
            except BaseException as e:
                r.violation('augment_exception', {'overridden': sub, 'error': repr(e)[:300], 'class': type(base).__name__,
                                                  'second_derived_mdp': True}, item)
            # the derived MDP's array views must show its own (possibly overridden) functions, whatever the base had cached
            if tabular and 'state_list' not in sub and 'action_list' not in sub:
                try:
                    SL_, AL_ = list(aug.state_list), list(aug.action_list)
                    tm, rm, av, iv = aug.transition_matrix, aug.reward_matrix, aug.absorbing_state_vec, aug.initial_state_vec
                    ok = True
                    for i, s_ in enumerate(SL_):
                        if abs(float(iv[i]) - float(dict(aug.initial_state_dist().items()).get(s_, 0))) > 1e-12:
                            ok = False
                        if bool(aug.is_absorbing(s_)) and not bool(av[i]):
                            ok = False
                        for a_ in aug.actions(s_):
                            j = AL_.index(a_)
                            d = dict(aug.next_state_dist(s_, a_).items())
                            for k2, ns_ in enumerate(SL_):
                                p_ = float(d.get(ns_, 0))
                                if abs(float(tm[i, j, k2]) - p_) > 1e-12 or (p_ > 0 and float(rm[i, j, k2]) != float(aug.reward(s_, a_, ns_))):
                                    ok = False
                    r.count('transitions')
                    if not ok:
                        r.violation('augment_arrays_do_not_show_the_derived_functions', {'overridden': sub, 'class': type(base).__name__,
                                                                                     'base_arrays_precomputed': (li + ci) % 2 == 0}, item)
                except BaseException as e:
                    r.violation('augment_arrays_exception', {'overridden': sub, 'error': repr(e)[:300], 'class': type(base).__name__}, item)
            if 0 < k < len(comps):
                r.nontriv((spec_item, li, ci, sub))
    if hash(repr(item)) % 40 == 0:
        r.sample({'part': 'A', 'spec': repr(spec_item), 'base_class': type(base).__name__, 'subsets': 2 ** len(comps)})


# --------------------------------------------------------------------------- (B) sub-goal sub-task
def check_B(item, r):
    from msdm.core.semimdp.option import PlanToSubgoalOption
    from msdm.algorithms import ValueIteration
    _, spec_item, li, _ = item
    if li % 2 == 1:
        # the base MDP has an absorbing state of its own (so include_mdp_absorbing_states makes a difference)
        spec_item = spec_item[:3] + ((1,),) + spec_item[4:]
    spec = Spec(spec_item)
    n = spec.n
    base = build.SpecMDP(spec, SLAB[li], ALAB[li], explicit_lists=True)
    sl, al = base.sl, base.al
    for subgoals in [(1,), (2,), (1, 2)]:
        for inits in [(0,), (0, 1)]:
            if set(inits) & set(subgoals) == set(inits):
                continue
            for cap in [float('inf'), 0.0, -1.0]:
                for incl in (False, True):
                    ctx = {'subgoals': subgoals, 'initial_states': inits, 'max_nonterminal_pseudoreward': cap, 'include_mdp_absorbing_states': incl}
                    r.count('states')
                    try:
                        opt = PlanToSubgoalOption(mdp=base, initial_states=[sl(s) for s in inits], subgoals=[sl(s) for s in subgoals],
                                                  planner=ValueIteration(max_residual=1e-10, max_iterations=5000),
                                                  include_mdp_absorbing_states=incl, name='o', max_steps=10,
                                                  max_nonterminal_pseudoreward=cap)
                        sub = opt.sub_task
                    except BaseException as e:
                        r.violation('subtask_exception', dict(ctx, error=repr(e)[:300]), item)
                        continue
                    # reference sub-task
                    T2 = []
                    for s in range(n):
                        row = []
                        for a in spec.acts[s]:
                            dist = tuple(spec.Tall[s][a])
                            rew = tuple(spec.R[s][a][ns] if (ns in subgoals or spec.R[s][a][ns] <= cap) else F(cap) for ns, _ in dist)
                            row.append((a, dist, rew))
                        T2.append(tuple(row))
                    absorbing = set(subgoals) | (set(spec.abs_explicit) if incl else set())
                    ref = Spec(('mdp', n, tuple(T2), tuple(sorted(absorbing)), tuple((s, F(1, len(inits))) for s in inits), spec.gamma))

                    def bad(kind, detail):
                        r.violation(kind, dict(ctx, **detail), item)
                    r.count('transitions')
                    if sub.discount_rate != float(spec.gamma):
                        bad('subtask_discount_rate', {'got': sub.discount_rate, 'want': float(spec.gamma)})
                    if tuple(sub.state_list) != tuple(base.state_list) or tuple(sub.action_list) != tuple(base.action_list):
                        bad('subtask_lists', {})
                    if {k: round(v, 12) for k, v in sub.initial_state_dist().items()} != {sl(s): round(1 / len(inits), 12) for s in inits}:
                        bad('subtask_initial_state_dist', {'got': repr(dict(sub.initial_state_dist().items()))})
                    for s in range(n):
                        r.count('transitions')
                        if bool(sub.is_absorbing(sl(s))) != (s in absorbing):
                            bad('subtask_is_absorbing', {'s': s})
                        if tuple(sub.actions(sl(s))) != tuple(base.actions(sl(s))):
                            bad('subtask_actions', {'s': s})
                        for a in spec.acts[s]:
                            if dict(sub.next_state_dist(sl(s), al(a)).items()) != dict(base.next_state_dist(sl(s), al(a)).items()):
                                bad('subtask_next_state_dist', {'s': s, 'a': a})
                            for ns in spec.T[s][a]:
                                if float(sub.reward(sl(s), al(a), sl(ns))) != float(ref.R[s][a][ns]):
                                    bad('subtask_reward', {'s': s, 'a': a, 'ns': ns, 'got': float(sub.reward(sl(s), al(a), sl(ns))),
                                                           'want': ref.R[s][a][ns]})
                    if spec.gamma < 1:
                        try:
                            res = opt.planning_result
                        except BaseException as e:
                            bad('subtask_planning_exception', {'error': repr(e)[:300]})
                            continue
                        V, Q = refmdp.optimal(ref)
                        tol = 1e-10 / (1 - float(spec.gamma)) + 1e-9
                        A2 = ref.absorbing()
                        for s in range(n):
                            want = 0.0 if s in A2 else float(V[s])
                            got = float(res.state_value[sl(s)])
                            r.count('transitions')
                            if abs(got - want) > tol * max(1, abs(want)):
                                bad('subtask_planning_value', {'s': s, 'got': got, 'want': want})
                        r.nontriv((spec_item, subgoals, inits, cap, incl))
    if hash(repr(item)) % 40 == 0:
        r.sample({'part': 'B', 'spec': repr(spec_item)})


# --------------------------------------------------------------------------- options
def make_option(Option, FunctionalPolicy, DictDistribution, base, spec, pol_kind, terminal, max_steps, captured=None, name='opt'):
    sl, al = base.sl, base.al

    def dist(ls):
        s = base.s_of[ls]
        acts = spec.acts[s]
        if pol_kind == 'first' or len(acts) == 1:
            return DictDistribution({al(acts[0]): 1.0})
        if pol_kind == 'last':
            return DictDistribution({al(acts[-1]): 1.0})
        return DictDistribution({al(acts[0]): 0.5, al(acts[1]): 0.5})

    class SpyPolicy(FunctionalPolicy):
        def run_on(self, *a, **k):
            out = FunctionalPolicy.run_on(self, *a, **k)
            if captured is not None:
                captured.append(out)
            return out

    class Opt(Option):
        def __init__(self):
            self.policy = SpyPolicy(dist)
            self.name = name
            self.max_steps = max_steps

        def is_terminal(self, s):
            return base.s_of[s] in terminal

        def is_initial(self, s):
            return True

        def __hash__(self):
            return hash(self.name)

        def __eq__(self, other):
            return self is other
    return Opt()


def check_C(item, tier, r):
    from msdm.core.semimdp.option import Option
    from msdm.core.mdp import FunctionalPolicy
    from msdm.core.distributions import DictDistribution
    from msdm.core.exceptions import AlgorithmException
    _, spec_item, li, _ = item
    if li % 2 == 1:
        # the base MDP declares state 1 absorbing: an option whose termination set excludes it must run through it
        spec_item = spec_item[:3] + ((1,),) + spec_item[4:]
    spec = Spec(spec_item)
    n = spec.n
    base = build.SpecMDP(spec, SLAB[li], ALAB[li])
    sl = base.sl
    for pol_kind in ('first', 'last', 'mix'):
        for terminal in [(2,), (1,), (1, 2), ()]:
            for max_steps in range(1, 6):
                for start in range(n):
                    ctx = {'policy': pol_kind, 'terminal': terminal, 'max_steps': max_steps, 'start': start}
                    captured = []
                    opt = make_option(Option, FunctionalPolicy, DictDistribution, base, spec, pol_kind, terminal, max_steps, captured)
                    ex = Explorer(bound=None, max_points=60, max_execs=4000)

                    def body(rng):
                        del captured[:]
                        try:
                            return ('ok', opt.run_on(base, sl(start), rng=rng))
                        except AlgorithmException as e:
                            return ('raised', None)

                    def on_exec(out, e, trunc):
                        r.count('executions')
                        r.count('transitions')
                        if trunc:
                            r.count('truncated_executions')
                            return
                        c = dict(ctx, schedule=e.devs())
                        if len(captured) != 1:
                            r.violation('option_run_did_not_roll_out_once', dict(c, rollouts=len(captured)), item)
                            return
                        inner = captured[0]
                        path = [base.s_of.get(x) for x in inner.state]
                        nsteps = len(path) - 1
                        if path[0] != start:
                            r.violation('option_wrong_start', dict(c, path=path), item)
                            return
                        first_term = next((k for k, s in enumerate(path) if s in terminal), None)
                        if out[0] == 'ok':
                            res = out[1]
                            if [base.s_of.get(x) for x in res.state] != path:
                                r.violation('option_result_not_the_rollout', dict(c, path=path), item)
                            if first_term is None or first_term != len(path) - 1:
                                r.violation('option_returned_without_ending_at_first_terminal_state', dict(c, path=path), item)
                        else:
                            # lenient by one step (O1): raising is acceptable only near the step limit
                            if nsteps < max_steps - 1:
                                r.violation('option_raised_before_step_limit', dict(c, path=path), item)
                        if first_term is not None and first_term < len(path) - 1:
                            r.violation('option_continued_past_terminal_state', dict(c, path=path), item)
                        r.outcome((spec_item, pol_kind, terminal, max_steps, start, out[0], tuple(path)))
                    ex.explore(body, on_exec)
                    r.count('states', ex.states)
                    if ex.executions >= 2:
                        r.nontriv((spec_item, pol_kind, terminal, max_steps, start))
    # ---- a planned sub-goal option, built without a name, is executed too: it ends at its first sub-goal (or raises at the limit)
    from msdm.core.semimdp.option import PlanToSubgoalOption
    from msdm.algorithms import ValueIteration
    succ = {s: {ns for a in spec.acts[s] for ns in spec.T[s][a]} for s in range(n)}
    for subgoals in [(2,), (1, 2)]:
        for max_steps in (2, 4):
            try:
                popt = PlanToSubgoalOption(mdp=base, initial_states=[sl(s) for s in range(n) if s not in subgoals],
                                           subgoals=[sl(s) for s in subgoals], planner=ValueIteration(max_residual=1e-8, max_iterations=2000),
                                           max_steps=max_steps)
                popt.policy
            except BaseException as e:
                r.count('planned_option_not_built')
                continue
            for start in range(n):
                ctx = {'planned_option_subgoals': subgoals, 'max_steps': max_steps, 'start': start}
                ex = Explorer(bound=None, max_points=60, max_execs=2000)

                def body(rng):
                    try:
                        return ('ok', popt.run_on(base, sl(start), rng=rng))
                    except AlgorithmException:
                        return ('raised', None)

                def on_exec(out, e, trunc):
                    r.count('executions')
                    r.count('transitions')
                    if trunc:
                        r.count('truncated_executions')
                        return
                    if out[0] != 'ok':
                        r.count('planned_option_raised_at_its_step_limit')
                        return
                    path = [base.s_of.get(x) for x in out[1].state]
                    c = dict(ctx, schedule=e.devs(), path=path)
                    first_term = next((k for k, s_ in enumerate(path) if s_ in subgoals), None)
                    if path[0] != start:
                        r.violation('option_wrong_start', c, item)
                    elif any(v not in succ.get(u, ()) for u, v in zip(path, path[1:])):
                        r.violation('option_step_not_a_transition', c, item)
                    elif first_term is None or first_term != len(path) - 1:
                        r.violation('option_returned_without_ending_at_first_terminal_state', c, item)
                    r.outcome((spec_item, 'planned', subgoals, max_steps, start, tuple(path)))
                try:
                    ex.explore(body, on_exec)
                except Exception as e:      # whatever the library raises while a planned option is executed (index errors of its policy table included)
                    r.violation('planned_option_exception', dict(ctx, error=repr(e)[:300]), item)
                r.count('states', ex.states)
    if hash(repr(item)) % 40 == 0:
        r.sample({'part': 'C', 'spec': repr(spec_item)})


def check_D(item, tier, r):
    from msdm.core.semimdp.option import Option
    from msdm.core.semimdp.semimdp import SemiMarkovDecisionProcess
    from msdm.core.mdp import FunctionalPolicy
    from msdm.core.distributions import DictDistribution
    from msdm.core.exceptions import AlgorithmException
    _, spec_item, li, _ = item
    spec = Spec(spec_item)
    n = spec.n
    g = float(spec.gamma)
    if li % 2 == 0:
        # every transition distribution also lists a never-entered state with probability 0, for which the reward function
        # is not defined: an outcome that cannot happen is no outcome
        ghost = ('never', 'entered')

        class GhostMDP(build.SpecMDP):
            def next_state_dist(self, s_, a_):
                d = dict(build.SpecMDP.next_state_dist(self, s_, a_).items())
                d[ghost] = 0.0
                return DictDistribution(d)

            def reward(self, s_, a_, ns_):
                if ns_ == ghost:
                    raise KeyError((s_, a_, ns_))
                return build.SpecMDP.reward(self, s_, a_, ns_)
        base = GhostMDP(spec, SLAB[li], ALAB[li])
    else:
        base = build.SpecMDP(spec, SLAB[li], ALAB[li])
    sl, al = base.sl, base.al
    o1 = make_option(Option, FunctionalPolicy, DictDistribution, base, spec, 'mix', (2,), 6, name='go')
    o2 = make_option(Option, FunctionalPolicy, DictDistribution, base, spec, 'first', (1, 2), 3, name='short')
    o3 = make_option(Option, FunctionalPolicy, DictDistribution, base, spec, 'last', (1, 2), 6, name='go')   # same name as o1
    term = {id(o1): (2,), id(o2): (1, 2), id(o3): (1, 2)}
    kind = {id(o1): 'mix', id(o2): 'first', id(o3): 'last'}

    def sims_are_rollouts_of(o, sims, s0):
        """every simulation must start at s0, follow real transitions with actions the option's policy allows,
        and stop at the first state the option declares terminal"""
        for sim in sims:
            path = [base.s_of.get(x) for x in sim.state]
            acts = [base.a_of.get(x) for x in sim.action[:-1]]
            if not path or path[0] != s0:
                return False
            for k, (u, a, v) in enumerate(zip(path, acts, path[1:])):
                allowed = spec.acts[u][:1] if kind[id(o)] == 'first' or len(spec.acts[u]) == 1 else \
                    (spec.acts[u][-1:] if kind[id(o)] == 'last' else spec.acts[u])
                if u in term[id(o)] or a not in allowed or spec.T[u][a].get(v, 0) == 0:
                    return False
            if path[-1] not in term[id(o)]:
                return False
        return True
    for nsim in (1, 2, 3):
        for seed in (0, 1):
            for incl in (False, True):
                smdp = SemiMarkovDecisionProcess(mdp=base, options=[o1, o2, o3], n_option_simulations=nsim, include_mdp_actions=incl, seed=seed)
                for s in range(n):
                    ls = sl(s)
                    ctx = {'n_option_simulations': nsim, 'seed': seed, 'include_mdp_actions': incl, 's': s}
                    r.count('states')
                    # SemiMarkovDecisionProcess.actions is not part of the statement: with include_mdp_actions it
                    # concatenates mdp.actions(s) + list and raises TypeError when the MDP returns a tuple; counted only
                    try:
                        acts = list(smdp.actions(ls))
                        want = ([al(a) for a in spec.acts[s]] if incl else []) + [o1, o2, o3]
                        if acts != want:
                            r.count('outside:semimdp_actions_unexpected')
                    except TypeError:
                        r.count('outside:semimdp_actions_tuple_plus_list_typeerror')
                    for o in (o1, o2, o3):
                        r.count('transitions')
                        try:
                            sims = smdp.run_simulations(ls, o)
                        except AlgorithmException:
                            try:
                                smdp.next_state_transit_time_reward_dist(ls, o)
                                r.violation('semimdp_dist_although_simulation_raises', dict(ctx, option=o.name), item)
                            except AlgorithmException:
                                r.count('option_simulations_hit_step_limit')
                            continue
                        try:
                            dist = smdp.next_state_transit_time_reward_dist(ls, o)
                        except BaseException as e:
                            r.violation('semimdp_dist_exception', dict(ctx, option=o.name, error=repr(e)[:200]), item)
                            continue
                        emp = {}
                        for sim in sims:
                            states = list(sim.state)
                            rews = [x.get('reward', 0) for x in sim.steps[:-1]]
                            cum = sum(rw * g ** k for k, rw in enumerate(rews))
                            key = (states[-1], len(states) - 1, cum)
                            emp[key] = emp.get(key, 0) + 1 / nsim
                        if len(sims) != nsim:
                            r.violation('semimdp_number_of_simulations', dict(ctx, got=len(sims)), item)
                        if not sims_are_rollouts_of(o, sims, s):
                            r.violation('semimdp_simulations_are_not_rollouts_of_the_option', dict(ctx, option=o.name, policy=kind[id(o)],
                                        paths=[[base.s_of.get(x) for x in sim.state] for sim in sims]), item)
                        got = {(k[0], k[1]): {} for k in dist}
                        tot = sum(dist.values())
                        if abs(tot - 1) > 1e-9:
                            r.violation('semimdp_dist_not_normalised', dict(ctx, option=o.name, total=tot), item)
                        ok = len(dist) == len(emp)
                        for (ns, t, cum), p in emp.items():
                            m = [q for (ns2, t2, c2), q in dist.items() if ns2 == ns and t2 == t and abs(c2 - cum) <= 1e-9 * max(1, abs(cum))]
                            if len(m) != 1 or abs(m[0] - p) > 1e-9:
                                ok = False
                        if not ok:
                            r.violation('semimdp_dist_not_empirical_distribution_of_its_simulations',
                                        dict(ctx, option=o.name, got={repr(k): v for k, v in dist.items()}, want={repr(k): v for k, v in emp.items()}), item)
                        # marginals
                        try:
                            nt = smdp.next_state_transit_time_dist(ls, o)
                            nd = smdp.next_state_dist(ls, o)
                            ecr = smdp.expected_cumulative_reward(ls, o)
                            w_nt, w_nd = {}, {}
                            for (ns, t, cum), p in dist.items():
                                w_nt[(ns, t)] = w_nt.get((ns, t), 0) + p
                                w_nd[ns] = w_nd.get(ns, 0) + p
                            if any(abs(nt.prob(k) - v) > 1e-9 for k, v in w_nt.items()) or abs(sum(nt.values()) - 1) > 1e-9 or \
                               any(abs(nd.prob(k) - v) > 1e-9 for k, v in w_nd.items()) or abs(sum(nd.values()) - 1) > 1e-9 or \
                               abs(ecr - sum(c * p for (_, _, c), p in dist.items())) > 1e-9:
                                r.violation('semimdp_marginals', dict(ctx, option=o.name), item)
                        except BaseException as e:
                            r.violation('semimdp_marginals_exception', dict(ctx, option=o.name, error=repr(e)[:200]), item)
                        if len(emp) >= 2:
                            r.nontriv((spec_item, nsim, seed, s, o.name))
                    # the semi-MDP is a mutable dataclass: a different simulation count must take effect
                    if s not in (2,) and nsim == 2:
                        smdp.n_option_simulations = 3
                        try:
                            d3 = smdp.next_state_transit_time_reward_dist(ls, o1)
                            if abs(sum(d3.values()) - 1) > 1e-9 or any(abs(p * 3 - round(p * 3)) > 1e-9 for p in d3.values()):
                                r.violation('semimdp_simulation_count_change_ignored', dict(ctx, got={repr(k): v for k, v in d3.items()}), item)
                        except AlgorithmException:
                            pass
                        finally:
                            smdp.n_option_simulations = nsim
                    # primitive actions
                    for a in spec.acts[s]:
                        r.count('transitions')
                        try:
                            dist = smdp.next_state_transit_time_reward_dist(ls, al(a))
                        except BaseException as e:
                            r.violation('semimdp_primitive_exception', dict(ctx, a=a, error=repr(e)[:200]), item)
                            continue
                        want = {}
                        for ns, p in spec.T[s][a].items():
                            k = (sl(ns), 1, float(spec.R[s][a][ns]))
                            want[k] = want.get(k, 0) + float(p)
                        if set(k for k, p in dist.items() if p > 0) != set(want) or any(abs(dist.get(k, 0) - p) > 1e-12 for k, p in want.items()):
                            r.violation('semimdp_primitive_action_outcomes', dict(ctx, a=a, got=repr(dict(dist.items())), want=repr(want)), item)
    if hash(repr(item)) % 40 == 0:
        r.sample({'part': 'D', 'spec': repr(spec_item)})


def check(item, tier):
    r = Res()
    with warnings.catch_warnings():
        warnings.simplefilter('ignore')
        np.seterr(all='ignore')
        {'A': lambda: check_A(item, r), 'B': lambda: check_B(item, r), 'C': lambda: check_C(item, tier, r),
         'D': lambda: check_D(item, tier, r)}[item[0]]()
    return r


def replay(rec):
    return check(item_from_record(rec), rec.get('tier', 'quick'))
