"""C18 -- grid-game transitions are normalised and respect the physical constraints; factor tables
combine as normalised natural joins (product) and row-wise weight sums (mixture).

Part A (engine E3, mc/bfs.py): bounded-exhaustive enumeration of small two-agent layouts; for each
layout an explicit-state breadth-first search over ALL reachable states (from every placement of
the two agents) x ALL 25 joint actions through the real `TabularGridGame.next_state_dist`, with the
invariants of the statement evaluated on every edge against a geometry that this module parses
from the layout string with its own parser.

Part B (engine E1): bounded-exhaustive enumeration of pairs of `DiscreteFactorTable`s over nested
dict events; oracle = nested loops over Fractions."""
import itertools
import math
from fractions import Fraction as F

import numpy as np

from mc.run import Res as _Res, HarnessError, item_from_record, digest
from mc import bfs as E3

ID = 'C18'
RULE = ("Part A: Cartesian enumeration of static layouts (grid size x goal configuration {none, shared G@c, private G0@c, "
        "G1@c, G0@c & G1@c'} x feature set {none, one obstacle / wall(cell,dir) / fence(cell,dir), stacks of wall+fence+"
        "obstacle on one directed edge, pairs of features} x fence success probability {0,1/2,1}); inside one item the two "
        "agents are placed on every ordered pair of distinct free cells and a BFS from every not-yet-seen initial state "
        "applies the real next_state_dist to every reachable state x all 25 joint actions (states = distinct reachable "
        "states incl. the terminal one, summed over layouts, plus the factor-table pairs of part B; transitions = (state, "
        "joint action) pairs whose real next-state distribution was checked, plus factor-table operations compared). A layout is non-trivial when on at least one edge the measured "
        "probability of the free-movement outcome is < 0.99 because of an obstacle, wall, fence, collision, "
        "move-into-occupied-cell or swap (classified by the harness's own geometry). "
        "Part B: Cartesian enumeration of ordered pairs of factor tables (header = 1..2(3) leaf variables out of "
        "{x, y.u, y.v, z} with y a nested dict, values {0,1}; every assignment is absent or has weight 0, 1 or 2) for the "
        "product, and pairs over the same header x key orders x scale pairs for the mixture; a pair is non-trivial when "
        "the two headers share a leaf variable (product) / both tables have a positive row (mixture).")
ASSUMPTIONS = [
    "two agents A0, A1 with the default symbols; agents start on distinct, obstacle-free cells; goals are not placed on obstacle cells; "
    "walls / fences are not placed on obstacle cells; one global fence_success_prob in {0, 1/2, 1}; collision_prob=None (default)",
    "transitions out of a state depend on the layout only through its static features, so for one static layout the reachable "
    "sets of all agent placements are explored on a shared seen-set (each (state, joint action) pair is evaluated once, by the game "
    "object of the first placement that reaches it); every placement's game object is really constructed and its initial state compared "
    "with the harness's own parse of the layout string",
    "geometry (grid size, obstacles, wall and fence directions, goal cells and owners) is parsed by this module from the layout "
    "string; 'terminal state' = a successor without agent positions for which the game's is_terminal() is true",
    "normalisation tolerance 1e-9 (float softmax of at most a few dozen rows); 'positive probability' means > 0 exactly",
    "library reachable_states() is compared with the BFS state set of the same initial state; it is run on the same real "
    "transition function, memoised from the BFS (cache misses are counted and evaluated by the real function)",
    "factor tables: rows of one table are distinct and share one header and one key order; weights enter as probs=[w..] or "
    "logits=[log w..] (rotating); only `&`, `|`, `*` (inside weighted mixtures) and marginalisation of product results are judged; "
    "`.probs` of the result is the normalised distribution; an empty / all-zero join only has to carry no positive probability",
    "factor-table tolerance 1e-9 absolute on probabilities (weights <= 2, scale factors in {0,1/4,1/2,3/4,1,2})",
]
BUDGET = {'quick': 900, 'thorough': 3600}
CHUNK = {'quick': 6, 'thorough': 8}
MANIFEST = {
    'engines': ['E3-bfs', 'E1-enum'],
    'technique': "explicit-state BFS over the real grid-game transition function (all reachable states x all 25 joint actions) with "
                 "edge invariants from an independently parsed geometry; bounded-exhaustive enumeration of factor-table pairs vs a "
                 "Fraction natural-join / mixture reference",
    'level_text': 'explicit-state model checking of the real transition function on all small layouts + bounded-exhaustive '
                  'input enumeration of factor-table pairs against an exact reference',
    'level_note': 'layouts up to 3x3 (quick) / 4x4 (thorough) with bounded feature sets; invariants only (the statement does not fix '
                  'the exact outcome probabilities of fences or collisions)',
    'design_ref': 'DESIGN.md section 2.3 (E3) and section 3 / C18',
}
EXPLANATION = ("Safety invariants of the statement are evaluated on every (reachable state, joint action) edge of every enumerated "
               "layout; the factor-table algebra is compared with an exact Fraction reference on every enumerated pair.")

TOL = 1e-9


class Res(_Res):
    """Res that also counts violations per kind (reported under coverage.counters)."""
    __slots__ = ()

    def violation(self, kind, detail, item, finding=None, extra=None):
        self.count('violation_kind:' + kind)
        _Res.violation(self, kind, detail, item, finding=finding, extra=extra)

# ----------------------------------------------------------------------------------------------
# Part A: layouts (own syntax model; nothing here is read from the object under test)
# ----------------------------------------------------------------------------------------------
DIRS = {'left': (-1, 0), 'right': (1, 0), 'above': (0, 1), 'below': (0, -1)}
WALL_SYMS = {'[': 'left', ']': 'right', '^': 'above', '_': 'below'}
FENCE_SYMS = {'{': 'left', '}': 'right', '~': 'above', 'u': 'below'}
GOAL_SYMS = {'G0': ('A0',), 'G1': ('A1',), 'G': ('A0', 'A1')}
AGENTS = ('A0', 'A1')
ACTIONS = ((0, 0), (1, 0), (-1, 0), (0, 1), (0, -1))
SYM_ORDER = ['A0', 'A1', 'G0', 'G1', 'G', '#', '[', ']', '^', '_', '{', '}', '~', 'u']


def render(W, H, content):
    """content: {(x, y): [symbols]} with y counted from the BOTTOM row (as the library documents)."""
    rows = []
    for y in range(H - 1, -1, -1):
        row = []
        for x in range(W):
            syms = sorted(content.get((x, y), ()), key=SYM_ORDER.index)
            row.append('.'.join(syms) if syms else '.')
        rows.append(' '.join(row))
    return '\n'.join(rows)


class Geometry:
    """The harness's own reading of a layout string."""

    def __init__(self, layout):
        rows = [r.split() for r in layout.strip().split('\n')]
        self.H = len(rows)
        self.W = len(rows[0])
        if any(len(r) != self.W for r in rows):
            raise HarnessError('ragged layout ' + repr(layout))
        self.obstacles = set()
        self.walls = set()      # ((x, y), (dx, dy)): leaving (x, y) in direction (dx, dy) is blocked
        self.fences = set()
        self.goals = []         # ((x, y), owners)
        self.agents = {}
        self.content = {}
        for ri, row in enumerate(rows):
            y = self.H - 1 - ri
            for x, cell in enumerate(row):
                for sym in [e for e in cell.split('.') if e]:
                    self.content.setdefault((x, y), []).append(sym)
                    if sym in GOAL_SYMS:
                        self.goals.append(((x, y), GOAL_SYMS[sym]))
                    elif sym in WALL_SYMS:
                        self.walls.add(((x, y), DIRS[WALL_SYMS[sym]]))
                    elif sym in FENCE_SYMS:
                        self.fences.add(((x, y), DIRS[FENCE_SYMS[sym]]))
                    elif sym == '#':
                        self.obstacles.add((x, y))
                    elif sym in AGENTS:
                        if sym in self.agents:
                            raise HarnessError('agent twice in ' + repr(layout))
                        self.agents[sym] = (x, y)
                    else:
                        raise HarnessError('unknown symbol %r in %r' % (sym, layout))
        self.goal_cells = {c for c, _ in self.goals}
        self.own_goal = {an: {c for c, owners in self.goals if an in owners} for an in AGENTS}

    def static_signature(self):
        return (self.W, self.H, tuple(sorted(self.obstacles)), tuple(sorted(self.walls)), tuple(sorted(self.fences)),
                tuple(sorted(self.goals)))

    def in_grid(self, c):
        return 0 <= c[0] < self.W and 0 <= c[1] < self.H

    def free_cells(self):
        return [(x, y) for y in range(self.H) for x in range(self.W) if (x, y) not in self.obstacles]

    def clamp(self, c):
        return (max(min(c[0], self.W - 1), 0), max(min(c[1], self.H - 1), 0))


def _cells(W, H):
    return [(x, y) for y in range(H) for x in range(W)]


def goal_configs(W, H, mode, seed):
    cs = _cells(W, H)
    n = len(cs)
    out = [()]
    if mode == 'all':
        for c in cs:
            out.append((('G', c),))
        for c in cs:
            out.append((('G0', c),))
        for c in cs:
            out.append((('G1', c),))
        for c in cs:
            for d in cs:
                out.append((('G0', c), ('G1', d)))
    elif mode == 'pairs':
        for c in cs:
            out.append((('G', c),))
        for c in cs:
            for d in cs:
                out.append((('G0', c), ('G1', d)))
    elif mode == 'few':
        # a fixed handful; VERIF_SEED only rotates which cells carry them
        a, b, m = cs[seed % n], cs[(seed + n - 1) % n], cs[(seed + n // 2) % n]
        out += [(('G0', a), ('G1', b)), (('G', m),), (('G0', m), ('G1', m)), (('G1', a), ('G0', b)), (('G0', b),)]
    elif mode == 'few3':
        a, b, m = cs[seed % n], cs[(seed + n - 1) % n], cs[(seed + n // 2) % n]
        out += [(('G0', a), ('G1', b)), (('G', m),)]
    elif mode == 'mix3':
        # private and shared goals in one layout
        a, b, m = cs[seed % n], cs[(seed + n - 1) % n], cs[(seed + n // 2) % n]
        out = [(('G0', a), ('G1', b), ('G', m))]
    elif mode == 'none':
        pass
    else:
        raise HarnessError(mode)
    return out


def single_features(W, H):
    cs = _cells(W, H)
    obst = [(('#', c),) for c in cs]
    walls = [((s, c),) for c in cs for s in WALL_SYMS]
    fences = [((s, c),) for c in cs for s in FENCE_SYMS]
    return obst, walls, fences


def feature_sets(W, H, mode):
    """-> list of tuples of (symbol, cell)."""
    cs = set(_cells(W, H))
    obst, walls, fences = single_features(W, H)
    if mode == 'none':
        return [()]
    if mode == 'F1':
        return obst + walls + fences
    if mode == 'F2same':
        out = []
        for c in sorted(cs):
            for (ws, wd), (fs, fd) in zip(sorted(WALL_SYMS.items(), key=lambda kv: kv[1]),
                                          sorted(FENCE_SYMS.items(), key=lambda kv: kv[1])):
                assert wd == fd
                d = DIRS[wd]
                t = (c[0] + d[0], c[1] + d[1])
                out.append(((ws, c), (fs, c)))
                if t in cs:
                    out.append(((fs, c), ('#', t)))
                    out.append(((ws, c), ('#', t)))
                    out.append(((ws, c), (fs, c), ('#', t)))
        return out
    if mode == 'W2':
        # several wall symbols in ONE cell (corner cells): every pair and every triple of directions
        out = []
        for c in sorted(cs):
            syms = sorted(WALL_SYMS)
            for k in (2, 3):
                for combo in itertools.combinations(syms, k):
                    out.append(tuple((ws, c) for ws in combo))
        return out
    if mode == 'F2any':
        singles = [f[0] for f in obst + walls + fences]
        return [(f, g) for f, g in itertools.combinations(singles, 2)]
    if mode == 'F3mixed':
        # one obstacle + one wall + one fence, all positions
        return [(o[0], w[0], f[0]) for o in obst for w in walls for f in fences]
    raise HarnessError(mode)


P3 = ((0, 1), (1, 2), (1, 1), (3, 10))      # 3/10: a probability that is not a dyadic fraction
PH = ((1, 2),)

# (W, H, goal mode, feature mode, fence probabilities)
FAMILIES = {
    'quick': [
        (2, 1, 'all', 'none', PH), (2, 1, 'all', 'F1', P3), (2, 1, 'all', 'F2same', P3),
        (1, 2, 'all', 'none', PH), (1, 2, 'all', 'F1', P3), (1, 2, 'all', 'F2same', P3),
        (3, 1, 'all', 'none', PH), (3, 1, 'all', 'F1', PH), (3, 1, 'few', 'F1', P3), (3, 1, 'pairs', 'F2same', P3),
        (1, 3, 'all', 'none', PH), (1, 3, 'all', 'F1', P3),
        (2, 2, 'all', 'none', PH), (2, 2, 'all', 'F1', PH), (2, 2, 'few', 'F1', P3), (2, 2, 'few', 'F2same', P3),
        (2, 2, 'few3', 'W2', PH), (3, 1, 'few3', 'W2', PH), (1, 3, 'few3', 'W2', PH),
        (3, 2, 'all', 'none', PH), (3, 2, 'few3', 'F1', PH), (3, 2, 'none', 'W2', PH),
        (2, 3, 'few', 'none', PH), (2, 3, 'few3', 'F1', PH),
        (3, 3, 'few', 'none', PH), (3, 3, 'mix3', 'F1', PH),
    ],
    'thorough': [
        (2, 1, 'all', 'none', PH), (2, 1, 'all', 'F1', P3), (2, 1, 'all', 'F2same', P3), (2, 1, 'all', 'F2any', P3),
        (1, 2, 'all', 'none', PH), (1, 2, 'all', 'F1', P3), (1, 2, 'all', 'F2same', P3), (1, 2, 'all', 'F2any', P3),
        (3, 1, 'all', 'none', PH), (3, 1, 'all', 'F1', P3), (3, 1, 'all', 'F2same', P3), (3, 1, 'all', 'F2any', PH),
        (1, 3, 'all', 'none', PH), (1, 3, 'all', 'F1', P3), (1, 3, 'all', 'F2same', P3), (1, 3, 'all', 'F2any', PH),
        (2, 2, 'all', 'none', PH), (2, 2, 'all', 'F1', P3), (2, 2, 'all', 'F2same', P3), (2, 2, 'all', 'F2any', PH),
        (2, 2, 'few3', 'F3mixed', PH), (2, 2, 'all', 'W2', PH), (3, 2, 'few3', 'W2', PH), (3, 3, 'few3', 'W2', PH),
        (3, 2, 'all', 'none', PH), (3, 2, 'all', 'F1', P3), (3, 2, 'few3', 'F2same', P3),
        (2, 3, 'all', 'none', PH), (2, 3, 'pairs', 'F1', PH), (2, 3, 'few3', 'F2same', PH),
        (3, 3, 'all', 'none', PH), (3, 3, 'few', 'F1', P3), (3, 3, 'mix3', 'F2same', PH),
        (4, 3, 'few', 'none', PH), (4, 3, 'few3', 'F1', PH), (4, 3, 'mix3', 'F2same', PH),
        (3, 4, 'few', 'none', PH), (3, 4, 'mix3', 'F1', PH),
        (4, 4, 'few', 'none', PH), (4, 4, 'mix3', 'F1', PH),
    ],
}


def grid_items(tier, seed):
    emitted = set()
    for W, H, gmode, fmode, ps in FAMILIES[tier]:
        for feats in feature_sets(W, H, fmode):
            obst = {c for s, c in feats if s == '#'}
            if any(c in obst for s, c in feats if s != '#'):
                continue
            if len(obst) != sum(1 for s, c in feats if s == '#'):
                continue
            if W * H - len(obst) < 2:
                continue
            has_fence = any(s in FENCE_SYMS for s, c in feats)
            for goals in goal_configs(W, H, gmode, seed):
                if any(c in obst for s, c in goals):
                    continue
                content = {}
                for s, c in goals + feats:
                    if s in content.setdefault(c, []):
                        break
                    content[c].append(s)
                else:
                    layout = render(W, H, content)
                    for pn, pd in (ps if has_fence else PH):
                        it = ('grid', layout, pn, pd)
                        if it not in emitted:
                            emitted.add(it)
                            yield it


def _pos(agent):
    return (agent['x'], agent['y'])


def _ja(a0, a1):
    return {'A0': {'x': a0[0], 'y': a0[1]}, 'A1': {'x': a1[0], 'y': a1[1]}}


JOINT = [((a0, a1), (a0, a1)) for a0 in ACTIONS for a1 in ACTIONS]


def _positional(s):
    try:
        return all(isinstance(s[an]['x'], (int, np.integer)) and isinstance(s[an]['y'], (int, np.integer)) for an in AGENTS)
    except (KeyError, TypeError, IndexError):
        return False


def check_grid(item, tier, seed=0):
    import warnings
    from msdm.domains.gridgame.tabulargridgame import TabularGridGame
    r = Res()
    _, static_layout, pn, pd = item
    p = F(pn, pd)
    geo0 = Geometry(static_layout)
    if geo0.agents:
        raise HarnessError('static layout with agents')
    sig = geo0.static_signature()
    free = geo0.free_cells()
    placements = [(a, b) for a in free for b in free if a != b]
    rot = seed % len(placements)
    placements = placements[rot:] + placements[:rot]

    graph = E3.Graph()
    cache = {}
    # a correct game has at most N*(N-1) + N (both on one goal cell) + 1 (terminal) states; the cap only keeps a broken
    # transition function from producing an unbounded search (it is then reported as non-exhaustive, next to the violations)
    max_states = 4 * (len(free) + 2) ** 2 + 16
    rule_kinds = set()
    r.count('layouts')

    def bad(kind, detail, s=None, ja=None, **extra):
        d = dict(detail)
        d['layout'] = cur['layout']
        d['fence_success_prob'] = str(p)
        if s is not None:
            d['state'] = s
            try:
                d['path'] = [(a, k) for a, k in graph.path_to(E3.canon(s))][-6:]
            except Exception:
                pass
        if ja is not None:
            d['joint_action'] = ja
        r.violation(kind, d, item)

    cur = {}

    def actions(s):
        return JOINT

    def step(s, a, depth):
        gg, geo = cur['gg'], cur['geo']
        ja = _ja(*a)
        r.count('transitions')
        try:
            dist = gg.next_state_dist(s, ja)
            support = list(dist.support)
            probs = [float(q) for q in dist.probs]
        except Exception as e:  # noqa
            bad('next_state_dist_raised', {'error': repr(e)[:300]}, s, ja)
            return []
        cache[(E3.canon(s), E3.canon(ja))] = dist
        succ = check_edge(gg, geo, s, a, ja, dist, support, probs)
        return succ

    def check_edge(gg, geo, s, a, ja, dist, support, probs):
        if len(support) != len(probs):
            bad('support_probs_length', {'support': support, 'probs': probs}, s, ja)
            return []
        if any((q != q) or q < 0 or math.isinf(q) for q in probs):
            bad('invalid_probability', {'probs': probs}, s, ja)
            return []
        tot = math.fsum(probs)
        if abs(tot - 1) > TOL:
            bad('not_normalised', {'sum': tot, 'support': support, 'probs': probs}, s, ja)
        agg = {}
        rep = {}
        for ns, q in zip(support, probs):
            k = E3.canon(ns)
            agg[k] = agg.get(k, 0.0) + q
            rep.setdefault(k, ns)
        # the same distribution through the per-event API (what transitionmatrix uses)
        try:
            tot_api = math.fsum(float(dist.prob(ns)) for ns in rep.values())
        except Exception as e:  # noqa
            tot_api = None
            bad('prob_api_raised', {'error': repr(e)[:200]}, s, ja)
        if tot_api is not None and abs(tot_api - 1) > TOL:
            bad('not_normalised_over_distinct_events', {'sum_of_prob(e)_over_distinct_support': tot_api, 'support': support,
                                                       'probs': probs}, s, ja)
        pos = {k: rep[k] for k, q in agg.items() if q > 0}
        s_positional = _positional(s)
        if not s_positional:
            # s is the terminal state: absorbing and pays nothing
            r.count('edges_from_terminal')
            sk = E3.canon(s)
            for k, ns in pos.items():
                if k != sk:
                    bad('terminal_not_absorbing', {'successor': ns, 'p': agg[k]}, s, ja)
            try:
                jr = gg.joint_rewards(s, ja, s)
                if not isinstance(jr, dict) or set(jr) != set(AGENTS) or any(float(v) != 0 for v in jr.values()):
                    bad('terminal_pays', {'joint_rewards': jr}, s, ja)
            except Exception as e:  # noqa
                bad('terminal_rewards_raised', {'error': repr(e)[:200]}, s, ja)
            return list(pos.values())
        cells = {an: _pos(s[an]) for an in AGENTS}
        on_goal = [an for an in AGENTS if cells[an] in geo.own_goal[an]]
        if on_goal:
            r.count('edges_from_own_goal_states')
            for k, ns in pos.items():
                ok = (not _positional(ns))
                try:
                    ok = ok and bool(gg.is_terminal(ns))
                except Exception:
                    ok = False
                if not ok:
                    bad('own_goal_state_not_to_terminal', {'agents_on_own_goal': on_goal, 'successor': ns, 'p': agg[k]}, s, ja)
            if not pos:
                bad('own_goal_state_no_successor', {'agents_on_own_goal': on_goal}, s, ja)
            return list(pos.values())
        # ordinary state: physical constraints on every positive-probability successor
        r.count('edges_ordinary')
        intended = {an: geo.clamp((cells[an][0] + act[0], cells[an][1] + act[1])) for an, act in zip(AGENTS, a)}
        p_free = 0.0
        for k, ns in pos.items():
            if not _positional(ns):
                bad('successor_without_positions', {'successor': ns, 'p': agg[k]}, s, ja)
                continue
            nc = {an: _pos(ns[an]) for an in AGENTS}
            if all(nc[an] == intended[an] for an in AGENTS):
                p_free += agg[k]
            for an in AGENTS:
                c0, c1 = cells[an], nc[an]
                if not geo.in_grid(c1):
                    bad('off_grid', {'agent': an, 'successor': ns, 'p': agg[k]}, s, ja)
                if c1 in geo.obstacles:
                    bad('inside_obstacle', {'agent': an, 'successor': ns, 'p': agg[k]}, s, ja)
                d = (c1[0] - c0[0], c1[1] - c0[1])
                if abs(d[0]) + abs(d[1]) > 1:
                    bad('moved_more_than_one_cell', {'agent': an, 'successor': ns, 'p': agg[k]}, s, ja)
                elif d != (0, 0) and (c0, d) in geo.walls:
                    bad('through_wall', {'agent': an, 'wall': [c0, d], 'successor': ns, 'p': agg[k]}, s, ja)
            if nc['A0'] == nc['A1'] and nc['A0'] not in geo.goal_cells:
                bad('shared_non_goal_cell', {'successor': ns, 'p': agg[k]}, s, ja)
            if cells['A0'] != cells['A1'] and nc['A0'] == cells['A1'] and nc['A1'] == cells['A0']:
                bad('swap', {'successor': ns, 'p': agg[k]}, s, ja)
        if not pos:
            bad('no_successor', {}, s, ja)
        # which rule (by the harness's own geometry) could have intervened, and did the outcome change?
        if p_free < 0.99:
            kinds = []
            for an, act in zip(AGENTS, a):
                raw = (cells[an][0] + act[0], cells[an][1] + act[1])
                if act != (0, 0):
                    if raw in geo.obstacles:
                        kinds.append('obstacle')
                    if (cells[an], act) in geo.walls:
                        kinds.append('wall')
                    if (cells[an], act) in geo.fences and geo.in_grid(raw):
                        kinds.append('fence')
            i0, i1 = intended['A0'], intended['A1']
            if i0 == i1 and i0 not in geo.goal_cells:
                kinds.append('collision')
            if i0 == cells['A1'] and i1 == cells['A0']:
                kinds.append('swap')
            elif (i0 == cells['A1'] and a[0] != (0, 0)) or (i1 == cells['A0'] and a[1] != (0, 0)):
                kinds.append('into_occupied')
            if i0 == i1 and i0 in geo.goal_cells:
                kinds.append('meet_on_goal')
            if not kinds:
                kinds.append('unclassified')
            for kd in set(kinds):
                r.count('edges_changed_by:' + kd)
                rule_kinds.add(kd)
            r.count('edges_outcome_changed')
        # measured, not judged (the statement does not fix fence outcome probabilities): one agent tries to cross a fence
        # with nothing else in the way while the other agent stays put, away from the cells involved
        for (an, act), (other, oact) in (((AGENTS[0], a[0]), (AGENTS[1], a[1])), ((AGENTS[1], a[1]), (AGENTS[0], a[0]))):
            raw = (cells[an][0] + act[0], cells[an][1] + act[1])
            if (act != (0, 0) and oact == (0, 0) and (cells[an], act) in geo.fences and geo.in_grid(raw)
                    and raw not in geo.obstacles and (cells[an], act) not in geo.walls and cells[other] != raw):
                r.count('fence_crossings_measured_unjudged')
                if abs(p_free - float(p)) > 1e-3:
                    r.count('fence_crossings_with_probability_not_p_unjudged')
        # rewards on ordinary edges: called, not judged (the statement only fixes the terminal state's)
        for ns in pos.values():
            try:
                gg.joint_rewards(s, ja, ns)
                r.count('joint_rewards_calls')
            except Exception:
                r.count('joint_rewards_raised_unjudged')
        return list(pos.values())

    def on_state(s, depth):
        r.count('states')
        r.maxi('depth', depth)
        gg, geo = cur['gg'], cur['geo']
        if _positional(s):
            cells = {an: _pos(s[an]) for an in AGENTS}
            own = any(cells[an] in geo.own_goal[an] for an in AGENTS)
            try:
                if bool(gg.is_absorbing(s)) != own:
                    r.count('is_absorbing_differs_from_own_goal_unjudged')
                if gg.is_terminal(s):
                    r.count('is_terminal_true_on_positional_state_unjudged')
            except Exception:
                r.count('is_absorbing_raised_unjudged')
        else:
            r.count('terminal_states')
            try:
                if not gg.is_terminal(s):
                    bad('non_positional_state_not_terminal', {}, s)
            except Exception as e:  # noqa
                bad('is_terminal_raised', {'error': repr(e)[:200]}, s)

    n_roots = 0
    with warnings.catch_warnings():
        warnings.simplefilter('ignore')
        np.seterr(all='ignore')
        for a0c, a1c in placements:
            content = {c: list(v) for c, v in geo0.content.items()}
            content.setdefault(a0c, []).append('A0')
            content.setdefault(a1c, []).append('A1')
            layout = render(geo0.W, geo0.H, content)
            geo = Geometry(layout)
            if geo.static_signature() != sig or geo.agents != {'A0': a0c, 'A1': a1c}:
                raise HarnessError('layout round trip failed: ' + repr(layout))
            cur.update(layout=layout, geo=geo)
            try:
                gg = TabularGridGame(layout, fence_success_prob=float(p))
                init = gg.initial_state_dist()
                roots = [s for s, q in zip(init.support, init.probs) if q > 0]
            except Exception as e:  # noqa
                r.violation('constructor_raised', {'layout': layout, 'error': repr(e)[:300]}, item)
                continue
            cur['gg'] = gg
            r.count('placements')
            if len(roots) != 1 or not _positional(roots[0]) or {an: _pos(roots[0][an]) for an in AGENTS} != geo.agents:
                raise HarnessError('initial state %r does not match the harness parse %r of layout %r (coordinate convention?)'
                                   % (roots, geo.agents, layout))
            if (gg.width, gg.height) != (geo.W, geo.H):
                raise HarnessError('grid size mismatch for ' + repr(layout))
            rk = E3.canon(roots[0])
            if rk in graph.depth:
                r.count('placements_already_reached')
                continue
            n_roots += 1
            E3.bfs(roots, actions, step, graph=graph, on_state=on_state, max_states=max_states)
            # library reachable_states() vs the BFS set of this initial state (same transition function, memoised)
            mine = graph.reach(rk)
            real = TabularGridGame.next_state_dist

            def memo(s, ja, _gg=gg):
                d = cache.get((E3.canon(s), E3.canon(ja)))
                if d is None:
                    r.count('reachable_states_cache_miss')
                    d = real(_gg, s, ja)
                return d
            gg.next_state_dist = memo
            try:
                lib = {E3.canon(s) for s in gg.reachable_states()}
                r.count('reachable_states_compared')
                if lib != mine:
                    r.violation('reachable_states_differs', {'layout': layout, 'only_in_library': sorted(lib - mine)[:5],
                                                             'only_in_bfs': sorted(mine - lib)[:5],
                                                             'n_library': len(lib), 'n_bfs': len(mine)}, item)
            except Exception as e:  # noqa
                r.violation('reachable_states_raised', {'layout': layout, 'error': repr(e)[:300]}, item)
            finally:
                del gg.next_state_dist
    if graph.truncated:
        r.count('truncated_executions')
    r.count('bfs_roots', n_roots)
    if rule_kinds & {'obstacle', 'wall', 'fence', 'collision', 'swap', 'into_occupied'}:
        r.nontriv(item)
    r.outcome((len(graph), tuple(sorted(rule_kinds))))
    if digest(item) % 1700 == 0:
        r.sample({'layout': static_layout.split('\n'), 'fence_success_prob': str(p), 'agent_placements': len(placements),
                  'bfs_roots': n_roots, 'reachable_states': len(graph), 'state_action_pairs': graph.n_edges,
                  'max_depth': graph.max_depth, 'rules_that_changed_an_outcome': sorted(rule_kinds)})
    return r


# ----------------------------------------------------------------------------------------------
# Part B: factor tables
# ----------------------------------------------------------------------------------------------
PATHS = ('x', 'y.u', 'y.v', 'z')
ABSENT = -1
ALPH = {'full': (ABSENT, 0, 1, 2), 'w012': (0, 1, 2), 'a12': (ABSENT, 1, 2), 'w12': (1, 2)}
SCALES = ((F(1, 2), F(1, 2)), (F(1, 4), F(3, 4)), (F(1), F(0)), (F(0), F(1)), (F(2), F(1)))


def headers(kmax):
    return [h for k in range(1, kmax + 1) for h in itertools.combinations(PATHS, k)]


def n_tables(header, alph):
    return len(ALPH[alph]) ** (2 ** len(header))


def table_rows(header, alph, idx):
    """-> list of (assignment tuple, weight) for the idx-th table over `header` (absent rows left out)."""
    A = ALPH[alph]
    rows = []
    for asg in itertools.product((0, 1), repeat=len(header)):
        idx, d = divmod(idx, len(A))
        if A[d] != ABSENT:
            rows.append((asg, A[d]))
    return rows


def build_event(header, asg, order):
    """Nested dict event; `order` permutes the insertion order of the leaf variables."""
    ev = {}
    for i in order:
        path = header[i].split('.')
        d = ev
        for kname in path[:-1]:
            d = d.setdefault(kname, {})
        d[path[-1]] = asg[i]
    return ev


def flatten(ev, prefix=()):
    out = []
    for k, v in ev.items():
        if isinstance(v, dict):
            out.extend(flatten(v, prefix + (k,)))
        else:
            out.append(('.'.join(prefix + (k,)), v))
    return frozenset(out)


def make_table(header, rows, order, how, row_rev=False):
    from msdm.core.distributions import DiscreteFactorTable as Pr
    rr = rows[::-1] if row_rev else rows
    events = [build_event(header, asg, order) for asg, w in rr]
    ws = [w for asg, w in rr]
    if not events:
        return Pr([])
    if how == 'probs':
        return Pr(events, probs=[float(w) for w in ws])
    return Pr(events, logits=[math.log(w) if w > 0 else -np.inf for w in ws])


def ref_join(h1, rows1, h2, rows2):
    """Natural join with multiplied weights -> {frozenset((path, value)): Fraction weight} (zero rows dropped)."""
    shared = [(i, h2.index(pth)) for i, pth in enumerate(h1) if pth in h2]
    out = {}
    for a1, w1 in rows1:
        for a2, w2 in rows2:
            if all(a1[i] == a2[j] for i, j in shared):
                ev = frozenset(list(zip(h1, a1)) + list(zip(h2, a2)))
                w = F(w1) * F(w2)
                if w != 0:
                    out[ev] = out.get(ev, F(0)) + w
    return out


def ref_mix(h, rows1, rows2, a, b):
    out = {}
    for rows, c in ((rows1, a), (rows2, b)):
        for asg, w in rows:
            ev = frozenset(zip(h, asg))
            out[ev] = out.get(ev, F(0)) + c * F(w)
    return {ev: w for ev, w in out.items() if w != 0}


def lib_dist(tab):
    """Aggregate the library's result by flattened event -> (dict event -> prob, sum of probs, raw)."""
    agg = {}
    for ev, q in zip(tab.support, tab.probs):
        k = flatten(ev) if isinstance(ev, dict) else ev
        agg[k] = agg.get(k, 0.0) + float(q)
    return agg


def compare(r, item, kind, expected_w, tab, detail):
    """expected_w: {event: Fraction weight > 0}.  Demands only: the positive probabilities are the
    normalised expected weights; nothing else carries positive probability."""
    agg = lib_dist(tab)
    if any((q != q) or q < 0 for q in agg.values()):
        r.violation(kind + ':invalid_probability', dict(detail, got=_show(agg)), item)
        return False
    tot = sum(expected_w.values())
    if tot == 0:
        if any(q > 0 for q in agg.values()):
            r.violation(kind + ':mass_on_empty_result', dict(detail, got=_show(agg)), item)
            return False
        return True
    ok = True
    for ev, w in expected_w.items():
        e = float(w / tot)
        if abs(agg.get(ev, 0.0) - e) > TOL:
            ok = False
    for ev, q in agg.items():
        if q > 0 and ev not in expected_w:
            ok = False
    if abs(math.fsum(agg.values()) - 1) > TOL:
        ok = False
    if not ok:
        r.violation(kind + ':wrong_distribution',
                    dict(detail, expected={_evs(ev): str(w / tot) for ev, w in expected_w.items()}, got=_show(agg)), item)
    return ok


def _evs(ev):
    return ','.join('%s=%s' % kv for kv in sorted(ev)) if isinstance(ev, frozenset) else repr(ev)


def _show(agg):
    return {_evs(ev): q for ev, q in agg.items()}


def _orders(n, variant):
    fwd = tuple(range(n))
    return fwd[::-1] if variant else fwd


def check_prod(item, tier, seed=0):
    _, h1, h2, alph1, alph2, start, stop = item
    r = Res()
    shared = [pth for pth in h1 if pth in h2]
    shares_top = bool({pth.split('.')[0] for pth in h1} & {pth.split('.')[0] for pth in h2})
    n2 = n_tables(h2, alph2)
    t2_all = [table_rows(h2, alph2, j) for j in range(n2)]
    for i in range(start, stop):
        rows1 = table_rows(h1, alph1, i)
        for j in range(n2):
            rows2 = t2_all[j]
            v = (i * 7 + j * 3 + seed) % 16
            o1, o2 = _orders(len(h1), v & 1), _orders(len(h2), (v >> 1) & 1)
            how1, how2 = ('probs', 'logits')[(v >> 2) & 1], ('probs', 'logits')[(v >> 3) & 1]
            rev = (i + j + seed) % 3 == 0
            detail = {'P': {'header': h1, 'rows': rows1, 'key_order': o1, 'built_with': how1},
                      'Q': {'header': h2, 'rows': rows2, 'key_order': o2, 'built_with': how2}, 'rows_reversed': rev}
            P = make_table(h1, rows1, o1, how1, rev)
            Q = make_table(h2, rows2, o2, how2, rev)
            r.count('states')
            r.count('pairs_product')
            exp = ref_join(h1, rows1, h2, rows2)
            if (i + 2 * j + seed) % 5 == 0 and rows1:
                # marginalising P by the NAME of one of its top-level variables first (the documented `P['x']` form) must leave P
                # itself as it was: the product below is still the join of the original rows
                try:
                    P[h1[0].split('.')[0]]
                    detail = dict(detail, P_was_marginalised_by_name_first=h1[0].split('.')[0])
                except BaseException as e:  # noqa
                    if isinstance(e, (KeyboardInterrupt, SystemExit)):
                        raise
                    r.count('marginalise_by_name_raised_unjudged')
            try:
                J = P & Q
            except BaseException as e:  # noqa
                if isinstance(e, (KeyboardInterrupt, SystemExit)):
                    raise
                r.violation('product:raised', dict(detail, error=repr(e)[:200]), item)
                continue
            r.count('transitions')
            try:
                ok = compare(r, item, 'product', exp, J, detail)
            except TypeError as e:
                # the rows of the join carry something that is not a variable assignment at all
                keys = sorted({repr(k_) for ev_ in J.support if isinstance(ev_, dict) for k_ in ev_})
                r.violation('product:rows_are_not_the_joined_assignments', dict(detail, row_keys=keys[:8], error=repr(e)[:120]), item)
                continue
            if shared:
                r.nontriv(('prod', h1, h2, alph1, alph2, i, j))
                r.count('pairs_sharing_a_variable')
            elif shares_top:
                r.count('pairs_sharing_only_a_nested_group')
            else:
                r.count('pairs_disjoint')
            if exp:
                r.outcome(('prod', len(exp), tuple(sorted(str(w) for w in exp.values()))))
            else:
                r.count('pairs_with_empty_join')
            # marginals of the join (observed through the library's own marginalisation; the join has no zero rows)
            if ok and exp:
                tot = sum(exp.values())
                tops = sorted({pth.split('.')[0] for pth in h1 + h2})
                top = tops[(i + j + seed) % len(tops)]
                em = {}
                for ev, w in exp.items():
                    sub = frozenset((pth, val) for pth, val in ev if pth.split('.')[0] == top)
                    em[sub] = em.get(sub, F(0)) + w
                try:
                    M = J.marginalize(lambda ev, _t=top: ev[_t])   # callable projection, as in the library's own tests
                    r.count('transitions')
                    r.count('marginals_checked')
                    agg = {}
                    for ev, q in zip(M.support, M.probs):
                        k = flatten({top: ev})
                        agg[k] = agg.get(k, 0.0) + float(q)
                    if (set(k for k, q in agg.items() if q > 0) != set(em)
                            or any(abs(agg.get(k, 0.0) - float(w / tot)) > TOL for k, w in em.items())):
                        r.violation('marginal_of_product:wrong_distribution',
                                    dict(detail, variable=top, expected={_evs(k): str(w / tot) for k, w in em.items()},
                                         got=_show(agg)), item)
                except BaseException as e:  # noqa
                    if isinstance(e, (KeyboardInterrupt, SystemExit)):
                        raise
                    r.violation('marginal_of_product:raised', dict(detail, variable=top, error=repr(e)[:200]), item)
            if digest(('s', h1, h2, i, j)) % 150000 == 0 and shared and len(exp) > 1:
                tot = sum(exp.values())
                r.sample({'P': [(build_event(h1, a, o1), w) for a, w in rows1], 'Q': [(build_event(h2, a, o2), w) for a, w in rows2],
                          'P&Q expected': {_evs(ev): str(w / tot) for ev, w in exp.items()}, 'P&Q library': _show(lib_dist(J))})
    return r


def mix_keyorder_class(P_events, Q_events):
    """Class predicate of finding C18-mix-keyorder: both tables are non-empty, have dict events, and the
    top-level key ORDER of some row of the left table differs from that of the first row of the right table
    (`mix` asserts `tuple(oi.keys()) == o_keys` while iterating over self.support instead of other.support)."""
    if not P_events or not Q_events:
        return False
    o_keys = tuple(Q_events[0].keys())
    return any(tuple(ev.keys()) != o_keys for ev in P_events)


def check_mix(item, tier, seed=0):
    _, h, alph1, alph2, start, stop = item
    r = Res()
    n2 = n_tables(h, alph2)
    t2_all = [table_rows(h, alph2, j) for j in range(n2)]
    tops = []
    for pth in h:
        if pth.split('.')[0] not in tops:
            tops.append(pth.split('.')[0])
    orders2 = [tuple(range(len(h)))]
    if len(h) > 1:
        orders2.append(tuple(range(len(h)))[::-1])
    for i in range(start, stop):
        rows1 = table_rows(h, alph1, i)
        if not rows1:
            continue            # the empty table has no variables: out of scope for "same variables"
        for j in range(n2):
            rows2 = t2_all[j]
            if not rows2:
                continue
            v = (i * 5 + j * 3 + seed)
            how1, how2 = ('probs', 'logits')[v & 1], ('probs', 'logits')[(v >> 1) & 1]
            o1 = orders2[(v >> 2) % len(orders2)]
            r.count('states')
            r.count('pairs_mixture')
            if any(w > 0 for a, w in rows1) and any(w > 0 for a, w in rows2):
                r.nontriv(('mix', h, alph1, alph2, i, j))
            # plain mixture for every key order of Q, weighted mixtures (all scale pairs) in P's key order
            jobs = [(F(1), F(1), o2, False) for o2 in orders2]
            jobs += [(a, b, o1, True) for a, b in SCALES]
            for a, b, o2, scaled in jobs:
                detail = {'header': h, 'P_rows': rows1, 'Q_rows': rows2, 'P_key_order': o1, 'Q_key_order': o2,
                          'built_with': [how1, how2], 'scales': [str(a), str(b)] if scaled else None}
                P = make_table(h, rows1, o1, how1)
                Q = make_table(h, rows2, o2, how2)
                exp = ref_mix(h, rows1, rows2, a, b)
                r.count('transitions')
                try:
                    M = (P * float(a) | Q * float(b)) if scaled else (P | Q)
                except BaseException as e:  # noqa
                    if isinstance(e, (KeyboardInterrupt, SystemExit)):
                        raise
                    fid = None
                    if isinstance(e, AssertionError) and mix_keyorder_class(list(P.support), list(Q.support)):
                        fid = 'C18-mix-keyorder'
                    r.violation('mixture:raised', dict(detail, error=repr(e)[:200]), item, finding=fid)
                    continue
                compare(r, item, 'mixture', exp, M, detail)
                # the building blocks of a weighted mixture: a table given by scores, and a scaled table, read back as the
                # normalised weights of their rows (zero rows stay at 0 and take no mass away from the others)
                if scaled and a > 0:
                    wants = {}
                    for asg, w in rows1:
                        if w > 0:
                            ev = frozenset(zip(h, asg))
                            wants[ev] = wants.get(ev, F(0)) + F(w)
                    for what, tab in ((('table_from_logits', P),) if how1 == 'logits' else ()) + (('scaled_table', P * float(a)),):
                        r.count('transitions')
                        compare(r, item, what, wants, tab, detail)
                if exp:
                    r.outcome(('mix', len(exp), tuple(sorted(str(w) for w in exp.values()))))
            if digest(('m', h, i, j)) % 20000 == 0 and len(rows1) > 1 and len(rows2) > 1:
                exp = ref_mix(h, rows1, rows2, F(1, 4), F(3, 4))
                tot = sum(exp.values())
                if tot:
                    r.sample({'P': [(build_event(h, a_, o1), w) for a_, w in rows1],
                              'Q': [(build_event(h, a_, o1), w) for a_, w in rows2],
                              'P*0.25 | Q*0.75 expected': {_evs(ev): str(w / tot) for ev, w in exp.items()}})
    return r


def _blocks(n, size):
    for s in range(0, n, size):
        yield s, min(n, s + size)


def ft_items(tier, seed):
    if tier == 'quick':
        hs = headers(2)
        for h1 in hs:
            for h2 in hs:
                if len(h1) == 2 and len(h2) == 2:
                    a1, a2 = 'w012', 'w012'
                else:
                    a1, a2 = 'full', 'full'
                n1, n2 = n_tables(h1, a1), n_tables(h2, a2)
                for s, e in _blocks(n1, max(1, 4000 // n2)):
                    yield ('prod', h1, h2, a1, a2, s, e)
        # absent rows with two-variable headers on both sides: one representative header pair per overlap class
        for h1, h2 in ((('x', 'z'), ('x', 'z')), (('x', 'y.u'), ('y.u', 'z')), (('x', 'y.u'), ('y.v', 'z')),
                       (('y.u', 'y.v'), ('y.v', 'z'))):
            n1, n2 = n_tables(h1, 'full'), n_tables(h2, 'a12')
            for s, e in _blocks(n1, max(1, 4000 // n2)):
                yield ('prod', h1, h2, 'full', 'a12', s, e)
        for h in hs:
            a1, a2 = ('full', 'full') if len(h) == 1 else ('w012', 'a12')
            n1, n2 = n_tables(h, a1), n_tables(h, a2)
            for s, e in _blocks(n1, max(1, 600 // n2)):
                yield ('mix', h, a1, a2, s, e)
    else:
        hs = headers(2)
        for h1 in hs:
            for h2 in hs:
                n1, n2 = n_tables(h1, 'full'), n_tables(h2, 'full')
                for s, e in _blocks(n1, max(1, 4000 // n2)):
                    yield ('prod', h1, h2, 'full', 'full', s, e)
        # three-variable headers (all rows present, weights {0,1,2} / {1,2}) against one- and two-variable tables
        for h3 in itertools.combinations(PATHS, 3):
            for h in hs:
                a = 'full' if len(h) == 1 else 'w012'
                n1, n2 = n_tables(h, a), n_tables(h3, 'w12')
                for s, e in _blocks(n1, max(1, 4000 // n2)):
                    yield ('prod', h, h3, a, 'w12', s, e)
                n1, n2 = n_tables(h3, 'w12'), n_tables(h, a)
                for s, e in _blocks(n1, max(1, 4000 // n2)):
                    yield ('prod', h3, h, 'w12', a, s, e)
        for h in hs:
            a1, a2 = ('full', 'full')
            n1, n2 = n_tables(h, a1), n_tables(h, a2)
            for s, e in _blocks(n1, max(1, 600 // n2)):
                yield ('mix', h, a1, a2, s, e)


# ----------------------------------------------------------------------------------------------
def bounds(tier):
    fam = [{'grid': '%dx%d' % (W, H), 'goals': g, 'features': f, 'fence_success_prob': ['%d/%d' % pq for pq in ps]}
           for W, H, g, f, ps in FAMILIES[tier]]
    return {
        'grid_families': fam,
        'per_layout': 'all ordered placements of A0, A1 on distinct free cells; BFS over all reachable states x 25 joint actions',
        'goal_modes': {'all': "none | G@c | G0@c | G1@c | G0@c & G1@c' (all cells, incl. the same cell)",
                       'pairs': "none | G@c | G0@c & G1@c'", 'few': 'none + 5 fixed configurations (cells rotate with VERIF_SEED)',
                       'few3': 'none | G0@a & G1@b | G@m', 'mix3': 'G0@a & G1@b & G@m in one layout'},
        'feature_modes': {'F1': 'one obstacle | one wall (cell, direction) | one fence (cell, direction)',
                          'F2same': 'wall+fence, fence+obstacle, wall+obstacle, wall+fence+obstacle on one directed edge',
                          'F2any': 'every unordered pair of single features', 'F3mixed': 'one obstacle + one wall + one fence, all positions'},
        'factor_tables': {
            'variables': list(PATHS), 'values': [0, 1], 'weights': [0, 1, 2], 'rows': 'each assignment absent or weighted',
            'product': ('quick: all ordered header pairs with 1..2 variables (two-variable x two-variable: all rows present; plus 4 '
                        'overlap classes with absent rows)' if tier == 'quick' else
                        'thorough: all ordered pairs of tables over headers with 1..2 variables incl. absent rows; three-variable '
                        'headers (weights {1,2}) against all one/two-variable tables'),
            'mixture': 'all pairs over the same header x key orders {same, reversed} x scale pairs ' + str([(str(a), str(b)) for a, b in SCALES]),
        },
    }


def items(tier, seed):
    # interleave the two parts so that the pool is busy with both kinds; simplest layouts first
    yield from grid_items(tier, seed)
    yield from ft_items(tier, seed)



def check(item, tier):
    import os
    try:
        seed = int(os.environ.get('VERIF_SEED', '0') or 0)
    except ValueError:
        seed = 0
    if item[0] == 'grid':
        return check_grid(item, tier, seed)
    if item[0] == 'prod':
        return check_prod(item, tier, seed)
    if item[0] == 'mix':
        return check_mix(item, tier, seed)
    raise HarnessError('unknown item ' + repr(item)[:100])


def replay(rec):
    import os
    os.environ['VERIF_SEED'] = str(rec.get('seed', 0))
    return check(item_from_record(rec), rec.get('tier', 'quick'))
