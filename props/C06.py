"""C06 -- matrix, table and wrapper views of an MDP agree with its functional definition.

E1: every small MDP spec x labelling (sortable / unsortable / frozendict) x explicit-or-inferred lists x
zero-probability entries (inside / outside the reachable set); each array cell is compared with the
functional definition held exactly by the spec, and the from_matrices / Quick* round trips are
compared cell by cell."""
import warnings
from fractions import Fraction as F

import numpy as np

from mc.run import Res, item_from_record
from mc import refmdp, build
from mc.refmdp import Spec

ID = 'C06'
RULE = ("Cartesian enumeration of MDP specs (as C01, n<=2 full, n=3 reduced) x 6 state/action labellings x explicit/inferred "
        "lists x zero-probability-entry variants {none, inside reachable set, outside}. states = distinct (spec, variant) inputs; "
        "transitions = array/table/wrapper cells compared with the functional definition. Non-trivial = >= 2 listed states and "
        "some state with a proper subset of the action list or a stochastic outcome.")
ASSUMPTIONS = [
    "alphabet as C01; labels from {ints, reversed ints, strings, tuples, unsortable mixes, frozendicts}",
    "float cells must equal float(Fraction) exactly (no arithmetic is involved in building them) ; state_action_reward within 1e-12",
    "reference reachability: positive-probability closure from the initial support, successors of non-initial absorbing states not expanded",
]
BUDGET = {'quick': 900, 'thorough': 7200}
CHUNK = {'quick': 32, 'thorough': 32}
MANIFEST = {'engines': ['E1-enum']}

SLAB = ['int', 'rev', 'str', 'mix', 'tup', 'fd']
ALAB = ['ab', 'rev', 'ab', 'mix', 'rev', 'fd']
ZERO = ['none', 'inside', 'outside', 'zero_init']


def bounds(tier):
    return {'quick': 'n=1,2 Cartesian (dist level 1, rewards {-1,0,1}, gamma {9/10,1}) x rotating (labelling, explicit, zero-entry) variants; n=3 chain family',
            'thorough': 'n=1,2 Cartesian x all labellings x zero variants; n=3 reduced Cartesian'}[tier]


def spec_items(tier):
    AS = [('a',), ('b',), ('a', 'b')]
    R3 = [F(-1), F(0), F(1)]
    yield from build.enum_mdps(1, AS, 0, R3, [(), (0,)], build.INIT_MENU[1], [F(1, 2), F(1)])
    yield from build.edge_mdps()
    if tier == 'quick':
        yield from build.enum_mdps(2, AS, 1, [F(-1), F(0)], [(), (1,), (0,)], [build.INIT_MENU[2][0], build.INIT_MENU[2][2]],
                                   [F(9, 10), F(1)])
        yield from build.chain_mdps(3, [F(9, 10)], [F(-1), F(0)])
        yield from cut_family()
        yield from dead_end_family()
    else:
        yield from cut_family()
        yield from dead_end_family()
        yield from build.thorough_mdps(gammas=(F(9, 10), F(1)), nonpositive_when_undiscounted=False)


def dead_end_family():
    """n = 2, 3 with a state that offers no action at all (a dead end, not absorbing unless declared so)."""
    one = F(1)
    for d0 in [((1, one),), ((0, F(1, 2)), (1, F(1, 2))), ((1, F(1, 2)), (2, F(1, 2)))]:
        for ab in [(), (1,), (2,)]:
            for g in [F(9, 10), F(1)]:
                n = 3
                T = ((('a', d0, F(-1)), ('b', ((2, one),), F(-2))), (), (('a', ((2, one),), F(0)),))
                yield ('mdp', n, T, ab, ((0, one),), g)


def cut_family():
    """n = 3: state 1 is explicitly absorbing and is the only way to state 2 (an absorbing state whose
    successor lies outside the reachable set when the list is inferred)."""
    one = F(1)
    for d0 in [((1, one),), ((0, F(1, 2)), (1, F(1, 2)))]:
        for d1 in [((2, one),), ((1, F(1, 2)), (2, F(1, 2))), ((1, one),)]:
            for d2 in [((2, one),), ((0, one),)]:
                for r1 in [F(0), F(-1)]:
                    for g in [F(9, 10), F(1)]:
                        T = ((('a', d0, F(-1)),), (('a', d1, r1),), (('a', d2, F(0)),))
                        yield ('mdp', 3, T, (1,), ((0, one),), g)


def items(tier, seed):
    for i, it in enumerate(spec_items(tier)):
        if tier == 'quick':
            yield (it, (i + seed) % 6, (i // 6) % 2, ZERO[(i // 12 + seed) % 4])      # 48-cycle: every (labelling, explicit, zero mode) triple
        else:
            for k in range(3):
                li = (i + 2 * k + seed) % 6
                yield (it, li, (i + k) % 2, ZERO[(i // 2 + k + seed) % 4])


with_zero_entry = build.with_zero_entry


def check(item, tier):
    from msdm.core.mdp import TabularMarkovDecisionProcess, QuickTabularMDP, QuickMDP
    from msdm.algorithms import ValueIteration
    r = Res()
    base_item, li, explicit, zmode = item
    spec_item, ztgt = with_zero_entry(base_item, zmode)
    spec = Spec(spec_item)
    r.count('states')
    with warnings.catch_warnings():
        warnings.simplefilter('ignore')
        np.seterr(all='ignore')
        mdp = build.SpecMDP(spec, SLAB[li], ALAB[li], explicit_lists=bool(explicit))
        sl, al = mdp.sl, mdp.al
        n = spec.n

        def bad(kind, detail, finding=None):
            r.violation(kind, detail, item, finding=finding)

        # ---------------- lists
        try:
            slist = list(mdp.state_list)
            alist = list(mdp.action_list)
        except BaseException as e:
            bad('lists_exception', {'error': repr(e)[:300]})
            return r
        reach = spec.reachable()
        reach_strict = spec.reachable(expand_initial_absorbing=False)
        if reach != reach_strict:
            # the statement leaves open whether an absorbing state in the initial support is expanded
            r.count('initial_absorbing_expansion_ambiguous')
            got = {mdp.s_of.get(x) for x in (slist if not explicit else mdp.reachable_states())}
            if got == reach_strict:
                reach = reach_strict
        want_states = set(range(n)) if explicit else reach
        if len(set(slist)) != len(slist):
            bad('state_list_duplicates', {'state_list': slist})
        if set(slist) != {sl(s) for s in want_states}:
            bad('state_list_set', {'state_list': slist, 'expected': sorted(want_states), 'explicit': explicit})
            return r
        want_actions = {a for s in want_states for a in spec.acts[s]}
        if len(set(alist)) != len(alist) or set(alist) != {al(a) for a in want_actions}:
            bad('action_list', {'action_list': alist, 'expected': sorted(want_actions)})
            return r
        # ---------------- reachable_states(k)
        full = {sl(s) for s in reach}
        init_supp = {sl(s) for s, p in spec.init.items() if p > 0}
        for k in range(0, n + 2):
            try:
                rs = set(mdp.reachable_states(max_states=k))
            except BaseException as e:
                bad('reachable_states_exception', {'k': k, 'error': repr(e)[:200]})
                continue
            r.count('transitions')
            if not (rs <= full and init_supp <= rs):
                bad('reachable_states_bounds', {'k': k, 'got': sorted(map(repr, rs)), 'full': sorted(map(repr, full))})
            else:
                # a cut-off result is a connected piece of the closure: every member outside the initial support has a
                # predecessor inside it (expanded: initial, or not absorbing); and the cut-off is honoured up to one expansion
                idx = {mdp.s_of[x] for x in rs}
                init_idx = {s for s, p in spec.init.items() if p > 0}
                expandable = {s for s in idx if s in init_idx or s not in spec.abs_explicit}
                succ = {ns for s in expandable for a in spec.acts[s] for ns in spec.T[s][a]}
                orphans = idx - init_idx - succ
                maxfan = max([len({ns for a in spec.acts[s] for ns in spec.T[s][a]}) for s in range(n)] + [1])
                if orphans:
                    bad('reachable_states_cutoff_not_connected', {'k': k, 'got': sorted(idx), 'orphans': sorted(orphans)})
                elif len(idx) > max(k, len(init_idx)) + maxfan - 1 and len(idx) > len(init_idx):
                    bad('reachable_states_ignores_cutoff', {'k': k, 'got': sorted(idx), 'max_successors_of_one_state': maxfan})
                if k >= len(full) + 1 and rs != full:
                    bad('reachable_states_not_full', {'k': k, 'got': sorted(map(repr, rs)), 'full': sorted(map(repr, full))})
        if set(mdp.reachable_states()) != full:
            bad('reachable_states_default', {'got': sorted(map(repr, mdp.reachable_states())), 'full': sorted(map(repr, full))})
        # is some listed state's positive-probability successor outside the list?  (only possible
        # through a non-expanded absorbing state) -> K4 class
        outside_succ = any(ns not in want_states for s in want_states for a in spec.acts[s] for ns in spec.T[s][a])
        zero_outside = any(ns not in want_states for s in want_states for a in spec.acts[s]
                           for ns, p in spec.Tall[s][a] if p == 0)
        # ---------------- arrays
        try:
            tm = mdp.transition_matrix
            rm = mdp.reward_matrix
        except KeyError as e:
            # K4 is exactly this: the two successor-indexed arrays raise KeyError for a successor outside the inferred list
            bad('arrays_exception', {'error': repr(e)[:300], 'outside_successor': outside_succ, 'zero_outside': zero_outside},
                finding='K4' if outside_succ else None)
            return r
        except BaseException as e:
            bad('arrays_exception', {'error': repr(e)[:300], 'outside_successor': outside_succ, 'zero_outside': zero_outside})
            return r
        try:
            am = mdp.action_matrix
            s0 = mdp.initial_state_vec
            ab = mdp.absorbing_state_vec
            sar = mdp.state_action_reward_matrix
            tt, rt, sart = mdp.transition_table, mdp.reward_table, mdp.state_action_reward_table
        except BaseException as e:
            bad('arrays_exception', {'error': repr(e)[:300], 'outside_successor': outside_succ, 'zero_outside': zero_outside,
                                     'where': 'arrays other than transition_matrix / reward_matrix'})
            return r
        si = {mdp.s_of[ls]: i for i, ls in enumerate(slist)}
        ai = {mdp.a_of[la]: i for i, la in enumerate(alist)}
        nS, nA = len(slist), len(alist)
        if tm.shape != (nS, nA, nS) or rm.shape != (nS, nA, nS) or am.shape != (nS, nA) or s0.shape != (nS,) or ab.shape != (nS,):
            bad('array_shapes', {'tm': tm.shape, 'rm': rm.shape, 'am': am.shape})
            return r
        A = spec.absorbing()
        cells = 0
        for s in want_states:
            i = si[s]
            if float(s0[i]) != float(spec.init.get(s, 0)):
                bad('initial_state_vec', {'s': s, 'got': float(s0[i]), 'want': spec.init.get(s, 0)})
            # implicit absorbing must be judged on the listed sub-MDP, which the spec-level definition does
            if bool(ab[i]) != (s in A):
                bad('absorbing_state_vec', {'s': s, 'got': bool(ab[i]), 'want': s in A})
            for a, j in ai.items():
                avail = a in spec.acts[s]
                if float(am[i, j]) != (1.0 if avail else 0.0):
                    bad('action_matrix', {'s': s, 'a': a, 'got': float(am[i, j])})
                want_sar = 0.0
                for t in want_states:
                    k = si[t]
                    p = spec.T[s][a].get(t, F(0)) if avail else F(0)
                    rew = spec.R[s][a][t] if (avail and p > 0) else F(0)
                    cells += 1
                    if float(tm[i, j, k]) != float(p):
                        bad('transition_matrix', {'s': s, 'a': a, 'ns': t, 'got': float(tm[i, j, k]), 'want': p})
                    if float(rm[i, j, k]) != float(rew):
                        bad('reward_matrix', {'s': s, 'a': a, 'ns': t, 'got': float(rm[i, j, k]), 'want': rew})
                    if avail:
                        if float(tt[sl(s)][al(a)][sl(t)]) != float(tm[i, j, k]) or float(tt[sl(s), al(a), sl(t)]) != float(tm[i, j, k]):
                            bad('transition_table', {'s': s, 'a': a, 'ns': t})
                        if float(rt[sl(s)][al(a)][sl(t)]) != float(rm[i, j, k]):
                            bad('reward_table', {'s': s, 'a': a, 'ns': t})
                    want_sar += float(p) * float(rew)
                if abs(float(sar[i, j]) - want_sar) > 1e-12:
                    bad('state_action_reward_matrix', {'s': s, 'a': a, 'got': float(sar[i, j]), 'want': want_sar})
                if float(sart[sl(s)][al(a)]) != float(sar[i, j]):
                    bad('state_action_reward_table', {'s': s, 'a': a})
        r.count('transitions', cells)
        if len(want_states) >= 2 and any(len(spec.acts[s]) < len(want_actions) or any(len(spec.T[s][a]) > 1 for a in spec.acts[s])
                                         for s in want_states):
            r.nontriv((spec_item, li, explicit))
        # ---------------- reachable_state_vec: membership of each listed state in reachable_states()
        try:
            rsv = mdp.reachable_state_vec
            rset = set(mdp.reachable_states())
            for s in want_states:
                r.count('transitions')
                if bool(rsv[si[s]]) != (sl(s) in rset) or (sl(s) in rset) != (s in spec.reachable() or s in reach):
                    bad('reachable_state_vec', {'s': s, 'got': bool(rsv[si[s]]), 'in_reachable_states': sl(s) in rset})
        except BaseException as e:
            bad('reachable_state_vec_exception', {'error': repr(e)[:200]})
        # ---------------- round trips
        def same_arrays(other, name):
            try:
                if list(other.state_list) != slist or list(other.action_list) != alist:
                    bad(name + ':lists', {'state_list': list(other.state_list), 'action_list': list(other.action_list)})
                    return False
                for attr in ('transition_matrix', 'reward_matrix', 'action_matrix', 'initial_state_vec',
                             'absorbing_state_vec', 'state_action_reward_matrix'):
                    x, y = getattr(other, attr), getattr(mdp, attr)
                    r.count('transitions', int(np.size(x)))
                    if x.shape != y.shape or not np.array_equal(np.asarray(x, dtype=float), np.asarray(y, dtype=float)):
                        bad(name + ':' + attr, {'got': np.asarray(x, dtype=float), 'want': np.asarray(y, dtype=float)})
                        return False
                if other.discount_rate != mdp.discount_rate:
                    bad(name + ':discount_rate', {'got': other.discount_rate})
                    return False
            except BaseException as e:
                bad(name + ':exception', {'error': repr(e)[:300]})
                return False
            return True

        def same_plan(other, name):
            if spec.gamma == 1 and not spec.rewards_nonpositive():
                return
            try:
                p1 = ValueIteration(max_residual=1e-9, max_iterations=5000).plan_on(mdp)
                p2 = ValueIteration(max_residual=1e-9, max_iterations=5000).plan_on(other)
                same_iv = p1.initial_value == p2.initial_value or (p1.initial_value != p1.initial_value and p2.initial_value != p2.initial_value)
                if not (np.array_equal(np.array(p1.state_value), np.array(p2.state_value), equal_nan=True) and
                        np.array_equal(np.array(p1.policy), np.array(p2.policy), equal_nan=True) and
                        list(p1.policy.state_list) == list(p2.policy.state_list) and same_iv):
                    bad(name + ':planning_result', {'base': np.array(p1.state_value), 'other': np.array(p2.state_value)})
            except BaseException as e:
                bad(name + ':planning_exception', {'error': repr(e)[:300]})

        try:
            m2 = TabularMarkovDecisionProcess.from_matrices(
                state_list=mdp.state_list, action_list=mdp.action_list, initial_state_vec=mdp.initial_state_vec,
                transition_matrix=mdp.transition_matrix, action_matrix=mdp.action_matrix, reward_matrix=mdp.reward_matrix,
                absorbing_state_vec=mdp.absorbing_state_vec, discount_rate=mdp.discount_rate)
            if same_arrays(m2, 'from_matrices'):
                same_plan(m2, 'from_matrices')
        except BaseException as e:
            bad('from_matrices:exception', {'error': repr(e)[:300]})
        try:
            q = QuickTabularMDP(next_state_dist=mdp.next_state_dist, reward=mdp.reward, actions=mdp.actions,
                                initial_state_dist=mdp.initial_state_dist, is_absorbing=mdp.is_absorbing,
                                discount_rate=mdp.discount_rate)
            if explicit:
                q._state_list = mdp._state_list
                q._action_list = mdp._action_list
            if same_arrays(q, 'quicktabular'):
                same_plan(q, 'quicktabular')
            # deterministic specs through the next_state= / initial_state= constructor variants
            if all(len(spec.Tall[s][a]) == 1 for s in range(n) for a in spec.acts[s]) and len(spec.init) == 1:
                q3 = QuickTabularMDP(next_state=lambda s_, a_: sl(spec.Tall[mdp.s_of[s_]][mdp.a_of[a_]][0][0]), reward=mdp.reward,
                                     actions=mdp.actions, initial_state=sl(next(iter(spec.init))), is_absorbing=mdp.is_absorbing,
                                     discount_rate=mdp.discount_rate)
                if explicit:
                    q3._state_list = mdp._state_list
                    q3._action_list = mdp._action_list
                # read the reward matrix first: later arrays must not be affected by distributions handed out earlier
                q3.reward_matrix
                if same_arrays(q3, 'quicktabular_next_state'):
                    same_plan(q3, 'quicktabular_next_state')
            q2 = QuickMDP(next_state_dist=mdp.next_state_dist, reward=mdp.reward, actions=mdp.actions,
                          initial_state_dist=mdp.initial_state_dist(), is_absorbing=mdp.is_absorbing,
                          discount_rate=mdp.discount_rate)
            if set(q2.reachable_states()) != full or q2.discount_rate != mdp.discount_rate:
                bad('quickmdp:reachable', {})
            for s in want_states:
                if tuple(q2.actions(sl(s))) != tuple(mdp.actions(sl(s))) or q2.is_absorbing(sl(s)) != mdp.is_absorbing(sl(s)):
                    bad('quickmdp:functions', {'s': s})
        except BaseException as e:
            bad('quick:exception', {'error': repr(e)[:300]})
    if hash(repr(item)) % 3000 == 0:
        r.sample({'spec': repr(spec_item), 'labelling': (SLAB[li], ALAB[li]), 'explicit': explicit, 'zero_entry': zmode,
                  'state_list': [repr(x) for x in slist]})
    return r


def replay(rec):
    return check(item_from_record(rec), rec.get('tier', 'quick'))
