"""C04 -- LRTDP stays an upper bound and ends within the error margin of optimal.

E1 x E2: proper MDP specs x admissible heuristics x margins x action-order option; every trial history
(sampled initial states, sampled successors, action shuffles) is a path of the answer tree that the
stateless explorer enumerates (fair round-robin default, deviation bound d, all executions run to
completion) and every execution is judged against the exact optimum."""
import warnings
from fractions import Fraction as F
from itertools import product

import numpy as np

from mc.run import Res, item_from_record
from mc import refmdp, build
from mc.refmdp import Spec, NEG_INF, POS_INF
from mc.explore import Explorer, patched_random

ID = 'C04'
RULE = ("proper MDP specs (last state explicitly absorbing, every deterministic policy reaches it w.p. 1 -- decided exactly; "
        "gamma in {9/10,1}) x 4 admissible heuristics (incl. non-zero on absorbing states) x bellman_error_margin {0.3,1e-2} x "
        "randomize_action_order x initial distributions with mass on absorbing states x ALL trial histories within deviation bound d "
        "of the fair default schedule. states/transitions = nodes/edges of the explored answer trees; execution = one complete "
        "LRTDP run. Non-trivial = instance with >= 2 distinct trial histories.")
ASSUMPTIONS = [
    "alphabet: probabilities {1/4,1/2,3/4,1}, rewards {-2..1}, gamma {9/10,1}",
    "margin clause: V(s0) - V*(s0) <= margin * N and return(policy) >= V* - margin * N with N the exact expected number of steps of the returned greedy policy from s0",
    "executions that exceed the point horizon are counted as truncated and only judged on the upper-bound invariant up to that point",
]
BUDGET = {'quick': 900, 'thorough': 7200}
CHUNK = {'quick': 4, 'thorough': 4}
MANIFEST = {'engines': ['E1-enum', 'E2-explore'],
            'technique': 'stateless deviation-bounded exhaustive exploration of all trial histories of the real LRTDP vs exact optimum'}
HEUR = ['bound', 'exact', 'exact+half', 'half_on_absorbing', 'exact_on_even', 'exact_on_odd']
MARGINS = [0.3, 1e-2]
SLAB = ['int', 'rev', 'str', 'mix', 'tup', 'fd', 'falsy']
ALAB = ['ab', 'rev', 'ab', 'mix', 'rev', 'fd', 'falsy']


def bounds(tier):
    return {'quick': {'n=2': 'deviation bound 3', 'n=3': 'deviation bound 2', 'max_points': 150, 'heuristics': 6,
                      'margins': MARGINS, 'randomize_action_order': 'rotating'},
            'thorough': {'n=2': 'deviation bound 4', 'n=3': 'deviation bound 3', 'max_points': 250}}[tier]


def spec_items(tier):
    rb = lambda g: [F(-1), F(0)] if g == 1 else [F(-1), F(1)]
    inits2 = [((0, F(1)),), ((0, F(1, 2)), (1, F(1, 2))), ((1, F(1)),)]
    inits3 = [((0, F(1)),), ((1, F(1, 4)), (2, F(3, 4)))]
    yield from build.proper_mdps(2, [F(9, 10), F(1)], rb, inits2)
    yield from (it for it in build.edge_mdps() if it[1] == 5)      # three-outcome fans
    # deterministic n=3 MDPs with costs {-2,-5}: exact ties under the zero heuristic between an explored and an unexplored action
    yield from build.proper_mdps(3, [F(1)], lambda g: [F(-2), F(-5)], [((0, F(1)),)], dist_level=0, reduce_pairs=True,
                                 goal_opts=[(('a', ((2, F(1)),), F(0)),)])
    # stochastic start into S or T; S ties (under the zero heuristic) an explored exit with a detour through U, which is
    # reachable through that detour only
    for x, y, z in product((-2, -1), (-2, -1), (-5, -1)):
        for p1 in (F(1, 2), F(1, 4)):
            for g in (F(9, 10), F(1)):
                T = ((('a', ((1, p1), (2, 1 - p1)), F(-1)),),
                     (('a', ((4, F(1)),), F(x)), ('b', ((3, F(1)),), F(y))),
                     (('a', ((4, F(1)),), F(-1)),),
                     (('a', ((4, F(1)),), F(z)),),
                     (('a', ((4, F(1)),), F(0)),))
                yield ('mdp', 5, T, (4,), ((0, F(1)),), g)
    # huge costs with a slowly leaking self-loop: values of -8e6 (the residual test must stay absolute)
    for g in (F(1),):
        T = ((('a', ((0, F(7, 8)), (1, F(1, 8))), F(-10 ** 6)),), (('a', ((1, F(1)),), F(0)),))
        yield ('mdp', 2, T, (1,), ((0, F(1)),), g)
    # fans with large costs (discounting changes which action is best at the middle states)
    one = F(1)
    for c0, c1 in ((-20, -20), (-30, -29), (-10, -10)):
        T = ((('a', ((1, F(1, 4)), (2, F(1, 4)), (3, F(1, 2))), F(-1)), ('b', ((4, one),), F(-60))),
             (('a', ((4, one),), F(c0)),),
             (('a', ((4, one),), F(c1)), ('b', ((1, one),), F(-1))),
             (('a', ((4, one),), F(-3)),),
             (('a', ((4, one),), F(0)),))
        yield ('mdp', 5, T, (4,), ((0, one),), F(9, 10))
    if tier == 'quick':
        yield from build.proper_mdps(3, [F(1)], lambda g: [F(-1)], inits3, reduce_pairs=True,
                                     goal_opts=[(('a', ((2, F(1)),), F(0)),)])
    else:
        yield from build.proper_mdps(2, [F(9, 10), F(1)], lambda g: [F(-2), F(-1)] if g == 1 else [F(-2), F(1)], inits2, dist_level=2)
        yield from build.proper_mdps(3, [F(9, 10), F(1)], lambda g: [F(-1), F(0)] if g == 1 else [F(-1), F(1)], inits3, reduce_pairs=True)


def items(tier, seed):
    for i, it in enumerate(spec_items(tier)):
        if i % 3 == 2:
            it = build.with_ns_rewards(it)
        if i % 5 == 1 and it[1] <= 3:
            # an outcome listed with probability 0 (a state nothing leads to / an entry of the initial distribution / an
            # existing state) is no outcome: it is never sampled, and must not keep anything from being labelled solved
            it = build.with_zero_entry(it, ('outside_pit', 'zero_init', 'inside', 'outside')[(i // 5 + seed) % 4])[0]
        yield (it, (i + seed) % len(SLAB), (i + seed) % 2)


def make_heuristic(kind, spec, V, mdp):
    A = spec.abs_explicit
    g = spec.gamma
    if kind == 'bound':
        c = float(max(F(0), spec.max_reward()) / (1 - g)) if g < 1 else 0.0
        return lambda s: c
    if kind == 'exact':
        return lambda s: float(V[mdp.s_of[s]])
    if kind == 'exact+half':
        return lambda s: float(V[mdp.s_of[s]]) + 0.5
    if kind in ('exact_on_even', 'exact_on_odd'):
        # exact on half of the states, the (optimistic) bound on the others
        par = 0 if kind == 'exact_on_even' else 1
        c = float(max(F(0), spec.max_reward()) / (1 - g)) if g < 1 else 0.0
        return lambda s: float(V[mdp.s_of[s]]) if mdp.s_of[s] % 2 == par else c
    return lambda s: float(V[mdp.s_of[s]]) + (0.5 if mdp.s_of[s] in A else 0.0)


def fingerprint(res, mdp, spec):
    return (tuple(sorted((repr(k), round(float(v), 9)) for k, v in res.V.items())),
            tuple(sorted((repr(k), bool(v)) for k, v in res.solved.items())), round(float(res.initial_value), 9),
            tuple(repr(dict(res.policy.action_dist(mdp.sl(s)).items())) for s in range(spec.n)))


def check(item, tier):
    from msdm.algorithms.lrtdp import LRTDP, LRTDPEventListener
    r = Res()
    spec_item, li, rao_i = item
    spec = Spec(spec_item)
    A = spec.abs_explicit
    V, Q = refmdp.optimal(spec)
    with warnings.catch_warnings():
        warnings.simplefilter('ignore')
        mdp = build.SpecMDP(spec, SLAB[li], ALAB[li], dist_kind=['dict', 'uniform', 'det'][(li + rao_i) % 3])
        sl = mdp.sl
        init_support = [s for s, p in spec.init.items() if p > 0]
        sibling = build.SpecMDP(Spec(spec_item[:3] + (tuple(sorted(set(spec_item[3]) | {max(spec.n - 2, 0)})),) + spec_item[4:]),
                                SLAB[li], ALAB[li])
        for hk in HEUR:
            h = make_heuristic(hk, spec, V, mdp)
            big = spec.min_reward() <= -10 ** 5       # huge value magnitudes: real seeds only, with a tiny margin as well
            for margin in (MARGINS + [1e-6] if big else MARGINS):
                rao = bool(rao_i) if margin == MARGINS[0] else not bool(rao_i)
                ctx = {'heuristic': hk, 'margin': margin, 'randomize_action_order': rao}
                lviol = []

                class Listener(LRTDPEventListener):
                    def _look(self, lv, when):
                        me = lv['self']
                        for ls, v in me.res.V.items():
                            if float(v) < float(V[mdp.s_of[ls]]) - 1e-9 * max(1.0, abs(float(V[mdp.s_of[ls]]))):
                                lviol.append(('value_below_optimum_during_search', {'s': mdp.s_of[ls], 'value': float(v),
                                                                                    'Vstar': V[mdp.s_of[ls]], 'when': when}))

                    def end_of_lrtdp_timestep(self, lv):
                        self._look(lv, 'timestep')      # after every backup of a trial, not only at its end

                    def end_of_lrtdp_trial(self, lv):
                        self._look(lv, 'trial')

                reuse = (HEUR.index(hk) + int(rao)) % 2 == 0 and spec.n >= 3

                def body(rng, seed=0):
                    planner = LRTDP(heuristic=h, bellman_error_margin=margin, iterations=300, randomize_action_order=rao,
                                    event_listener_class=Listener, seed=seed)
                    if reuse:
                        # planner objects are reusable: first plan a sibling problem in which state n-2 is absorbing as well
                        planner.plan_on(sibling)
                    del lviol[:]
                    return planner.plan_on(mdp)

                def judge(res, sched):
                    c = dict(ctx, schedule=sched)

                    def bad(kind, detail):
                        d = dict(c)
                        d.update(detail)
                        r.violation(kind, d, item)
                    for k, d in lviol[:3]:
                        bad(k, d)
                    for s in init_support:
                        if not res.solved[sl(s)]:
                            bad('initial_state_not_solved', {'s': s})
                            return
                    for ls, v in res.V.items():
                        if float(v) < float(V[mdp.s_of[ls]]) - 1e-9:
                            bad('value_below_optimum', {'s': mdp.s_of[ls], 'value': float(v), 'Vstar': V[mdp.s_of[ls]]})
                    # absorbing states are worth 0 whatever the heuristic says
                    for s in A:
                        if float(res.V[sl(s)]) != 0:
                            bad('absorbing_value_nonzero', {'s': s, 'V': float(res.V[sl(s)])})
                        if sl(s) in res.Q and any(float(q) != 0 for q in res.Q[sl(s)].values()):
                            bad('absorbing_q_nonzero', {'s': s})
                    want_iv = sum(float(p) * (0.0 if s in A else float(res.V[sl(s)])) for s, p in spec.init.items())
                    if abs(float(res.initial_value) - want_iv) > 1e-9:
                        bad('initial_value', {'got': float(res.initial_value), 'want': want_iv})
                    # returned greedy policy, followed from the initial support
                    pi = {}
                    frontier = list(init_support)
                    seen = set(frontier)
                    ok = True
                    while frontier:
                        s = frontier.pop()
                        if s in A:
                            continue
                        try:
                            row = {mdp.a_of.get(a, a): p for a, p in res.policy.action_dist(sl(s)).items() if p > 0}
                        except BaseException as e:
                            bad('policy_undefined', {'s': s, 'error': repr(e)[:200]})
                            ok = False
                            continue
                        if not row or not set(row) <= set(spec.acts[s]):
                            bad('policy_unavailable_action', {'s': s, 'row': {repr(k): v for k, v in row.items()}})
                            ok = False
                            continue
                        pi[s] = {a: F(p).limit_denominator(64) for a, p in row.items()}
                        for a in row:
                            for ns in spec.T[s][a]:
                                if ns not in seen:
                                    seen.add(ns)
                                    frontier.append(ns)
                    if not ok:
                        return
                    full = {s: pi.get(s, {spec.acts[s][0]: F(1)}) for s in range(spec.n)}
                    N = refmdp.expected_steps(spec, full)
                    Vpi, _ = refmdp.eval_policy(spec, full)
                    ret, opt = 0.0, 0.0
                    nbar = 0.0
                    for s in init_support:
                        p = float(spec.init[s])
                        if s in A:
                            continue
                        if N[s] == POS_INF or Vpi[s] == NEG_INF:
                            bad('policy_improper', {'s': s, 'pi': pi})
                            return
                        if float(res.V[sl(s)]) - float(V[s]) > margin * float(N[s]) + 1e-9:
                            bad('value_exceeds_margin', {'s': s, 'V': float(res.V[sl(s)]), 'Vstar': V[s], 'N': N[s]})
                        ret += p * float(Vpi[s])
                        opt += p * float(V[s])
                        nbar += p * float(N[s])
                    if ret < opt - margin * nbar - 1e-9:
                        bad('policy_return_outside_margin', {'return': ret, 'optimal': opt, 'N': nbar, 'pi': pi})

                if spec.n <= 2:
                    ex = Explorer(bound=3 if tier == 'quick' else 4, max_points=150 if tier == 'quick' else 250, max_execs=30000)
                else:
                    ex = Explorer(bound=2 if tier == 'quick' else 3, max_points=150 if tier == 'quick' else 250, max_execs=30000)
                fps = {}

                def on_exec(out, e, trunc):
                    r.count('executions')
                    if trunc:
                        r.count('truncated_executions')
                        for k, d in lviol[:3]:
                            r.violation(k, dict(ctx, schedule=e.devs(), **d), item)
                        return
                    judge(out, e.devs())
                    fp = fingerprint(out, mdp, spec)
                    fps[tuple(e.devs())] = fp
                    r.outcome((spec_item, hk, margin, rao, fp))

                if big:
                    # thousands of backups are needed before a 1e-6 margin holds at values of 1e7: not explored, replayed for real seeds
                    for seed in (0, 1, 2, 3):
                        del lviol[:]
                        real = body(None, seed=seed)
                        judge(real, ['real seed', seed])
                        r.count('executions')
                        r.count('states')
                        r.count('transitions')
                    continue
                # pre-flight under default answers: a planner that does not get its initial states solved within the trial budget
                # is reported once, not explored (every one of its executions would run to the budget)
                ex0 = Explorer(bound=0, max_points=200000)
                with patched_random(ex0):
                    out0, trunc0 = ex0.run_one([], body)
                r.count('executions')
                if trunc0 or any(not out0.solved[sl(s)] for s in init_support):
                    r.violation('initial_state_not_solved', dict(ctx, schedule='default answers', trials_allowed=300,
                                                                  truncated=bool(trunc0)), item)
                    continue
                with patched_random(ex):
                    ex.explore(body, on_exec)
                r.count('states', ex.states)
                r.count('transitions', ex.transitions)
                if ex.capped:
                    r.count('capped_instances')
                if len(fps) >= 2:
                    r.nontriv((spec_item, hk, margin, rao))
                for sched in list(fps)[-1:]:
                    with patched_random(ex):
                        out, trunc = ex.run_one(list(sched), body)
                    r.count('replays')
                    if trunc or fingerprint(out, mdp, spec) != fps[sched]:
                        r.violation('replay_nondeterministic', dict(ctx, schedule=list(sched)), item)
                if hk == 'half_on_absorbing':
                    for seed in (0, 5):
                        del lviol[:]
                        real = LRTDP(heuristic=h, bellman_error_margin=margin, iterations=300, randomize_action_order=rao,
                                     seed=seed).plan_on(mdp)
                        judge(real, ['real seed', seed])
                        ex2 = Explorer(bound=None, max_points=2000)
                        with patched_random(ex2, real_seed_from_arg=True):
                            out, trunc = ex2.run_one([], lambda rng: body(rng, seed=seed))
                        r.count('traces_validated')
                        if trunc or fingerprint(out, mdp, spec) != fingerprint(real, mdp, spec):
                            r.violation('conformance_result_differs', dict(ctx, seed=seed), item)
                if hash(repr((item, hk, margin))) % 400 == 0:
                    r.sample({'spec': repr(spec_item), 'config': ctx, 'executions': ex.executions, 'distinct_results': len(set(fps.values())),
                              'Vstar': V})
    return r


def replay(rec):
    return check(item_from_record(rec), rec.get('tier', 'quick'))
