"""C19 -- entropy-regularised policy iteration converges to the soft Bellman fixed point.

E1: exhaustive enumeration of small row-stochastic transition tensors x integer reward tensors x
discount x entropy weight (scalar / per state) x priors on a lattice of the open simplex x
force_nonzero_probabilities; on every converged run the three fixed-point equations are recomputed
independently (plain Python floats, stable log-sum-exp), and with a uniform prior the action
values are bracketed by the exact optimal action values: Q* - gamma*w*log|A|/(1-gamma) <= Q_w <= Q*."""
import math
import warnings
from fractions import Fraction as F
from itertools import product

import numpy as np

from mc.run import Res, item_from_record
from mc import refmdp, build
from mc.refmdp import Spec

ID = 'C19'
RULE = ("Cartesian enumeration of tensors: S in {2,3}, A in {1,2,3}, each (s,a) row from {Dirac, 1/2-1/2} outcome menus, "
        "rewards from a small integer menu depending on (s,a) or on the successor, gamma in {1/2,9/10}, entropy weight in "
        "{1e-3,0.1,1,10} scalar or per-state, priors in {uniform, lattice points of the open simplex (shared / per-state)}, "
        "force_nonzero_probabilities in {T,F} (rotating so that every tensor sees every option class); plus the plan_on wrapper on "
        "MDP specs with state-dependent action sets. states = distinct (tensor, configuration) inputs; transitions = fixed-point "
        "equations evaluated. Non-trivial = >= 2 actions whose returned action values differ at some state.")
ASSUMPTIONS = [
    "tolerance 2e-4 * (1 + max|r|/(1-gamma)) on the fixed-point equations (convergence is declared by isclose(pi, new_pi) at rtol 1e-5)",
    "the limit clause is checked as the quantitative bracket Q* - gamma*w*log|A|/(1-gamma) <= Q_w <= Q* at each grid weight (uniform prior)",
    "non-converged runs are counted, not judged",
]
BUDGET = {'quick': 900, 'thorough': 7200}
CHUNK = {'quick': 16, 'thorough': 16}
MANIFEST = {'engines': ['E1-enum']}

WEIGHTS = [1e-3, 0.1, 1.0, 10.0]
GAMMAS = [F(1, 2), F(9, 10)]


def bounds(tier):
    return {'quick': 'S=2: A in {1,2,3} full row menu x rewards {-1,0,2} per (s,a); S=3, A=2 reduced; 4 configs per tensor (rotating) ; wrapper on n=2 MDP specs',
            'thorough': 'S=2 all configs; S=3 A in {1,2} full row menu, rewards {-2,0,1}; wrapper on n<=3 specs'}[tier]


def tensor_items(tier):
    one = F(1)
    for S, A in ([(2, 1), (2, 2), (2, 3), (3, 2)] if tier == 'quick' else [(2, 1), (2, 2), (2, 3), (3, 1), (3, 2)]):
        dists = build.dist_menu(S, 1)
        if S == 3 and tier == 'quick':
            dists = [d for d in dists if len(d) == 1] + [((0, F(1, 2)), (2, F(1, 2)))]
        rew = [F(-1), F(0), F(2)] if S == 2 else ([F(-1), F(2)] if tier == 'quick' else [F(-2), F(0), F(1)])
        if S == 2 and A == 3:
            rew = [F(-1), F(2)]
        per = [(d, r) for d in dists for r in rew]
        if S == 3 and tier == 'quick':
            per = per[::2]
        if S == 3 and A == 2 and tier == 'thorough':
            per = per[::3]
        if S == 2 and A == 3 and tier == 'quick':
            per = [per[0], per[3], per[4], per[5]]
        names = 'abc'[:A]
        for combo in product(per, repeat=S * A):
            T = tuple(tuple((names[a], combo[s * A + a][0], combo[s * A + a][1]) for a in range(A)) for s in range(S))
            yield ('mdp', S, T, (), ((0, one),), None)


PRIORS = {1: [None], 2: [None, (0.25, 0.75), 'perstate'], 3: [None, (0.5, 0.25, 0.25), 'perstate']}


def items(tier, seed):
    i = 0
    for t in tensor_items(tier):
        i += 1
        cfgs = range(16) if tier == 'thorough' and t[1] == 2 else [(i + seed + k * 5) % 16 for k in range(4)]
        for c in sorted(set(cfgs)):
            yield ('tensor', t, c, (i + c) % 3, (i // 3 + c) % 2, (i + c // 4) % 2)
    # wrapper on MDP specs (state-dependent action sets, no explicit absorbing states)
    # the statement requires a full-support prior; the wrapper's default prior is uniform over the
    # *available* actions, so only MDPs whose states all offer the whole action list are in scope
    j = 0
    for it in build.enum_mdps(2, [('a', 'b')], 1, [F(-1), F(0), F(1)], [()], [build.INIT_MENU[2][2], build.INIT_MENU[2][0]], [F(9, 10)]):
        j += 1
        if tier == 'thorough' or j % 4 == seed % 4:
            k = j // 4
            yield ('wrapper', it, k % 4, (k // 4) % 3, 0, 0)      # entropy weight and prior kind rotate independently
            yield ('wrapper', it, k % 4, (k // 4) % 3, 1 + k % 3, 0)      # the same with an iteration budget of 1..3


def lse_weighted(xs, ps):
    m = max(x for x, p in zip(xs, ps) if p > 0)
    return m + math.log(sum(p * math.exp(x - m) for x, p in zip(xs, ps) if p > 0))


def check(item, tier):
    import torch
    torch.set_num_threads(1)
    from msdm.algorithms.entregpolicyiteration import entropy_regularized_policy_iteration, EntropyRegularizedPolicyIteration
    r = Res()
    kind, spec_item, cfg, prior_i, rshape_i, force_i = item
    with warnings.catch_warnings():
        warnings.simplefilter('ignore')
        if kind == 'wrapper':
            return check_wrapper(item, r, torch, EntropyRegularizedPolicyIteration, entropy_regularized_policy_iteration)
        gamma = GAMMAS[cfg % 2]
        if cfg % 2 == 1 and (cfg // 2 + prior_i + force_i) % 5 == 0 and spec_item[1] == 2:
            gamma = F(99, 100)       # values ~ 100 x rewards: convergence tolerances are relative
        w = WEIGHTS[(cfg // 2) % 4]
        per_state_w = (cfg // 8) % 2 == 1
        if rshape_i == 1:
            spec_item = build.with_ns_rewards(spec_item)       # rewards that depend on the sampled successor
        spec = Spec(spec_item[:5] + (gamma,))
        S = spec.n
        A = len(spec.acts[0])
        names = spec.acts[0]
        tf = np.zeros((S, A, S))
        rf = np.zeros((S, A, S))
        for s in range(S):
            for ai, a in enumerate(names):
                for ns, p in spec.T[s][a].items():
                    tf[s, ai, ns] = float(p)
                for ns in range(S):
                    # reward tensor is defined on every cell (also zero-probability ones)
                    rf[s, ai, ns] = float(spec.R[s][a].get(ns, next(iter(spec.R[s][a].values()))))
        prior_opt = PRIORS[A][prior_i % len(PRIORS[A])]
        if prior_opt is None:
            prior = None
            prior_rows = [[1.0 / A] * A for _ in range(S)]
        elif prior_opt == 'perstate':
            base = PRIORS[A][1]
            prior_rows = [list(base[(s % A):] + base[:(s % A)]) for s in range(S)]
            prior = torch.tensor(prior_rows, dtype=torch.float64)
        else:
            prior_rows = [list(prior_opt) for _ in range(S)]
            prior = torch.tensor([list(prior_opt)], dtype=torch.float64)
        wv = [w * (1 + (s % 2)) for s in range(S)] if per_state_w else [w] * S
        ew = torch.tensor(wv, dtype=torch.float64) if per_state_w else float(w)
        if not per_state_w and (cfg + prior_i + force_i) % 3 == 2:
            # a scalar weight handed over as a 0-dimensional tensor / a numpy scalar instead of a Python float
            ew = torch.tensor(float(w), dtype=torch.float64) if cfg % 2 else np.float32(w)
            wv = [float(ew)] * S
        force = bool(force_i)
        if rshape_i == 0 and cfg % 3 == 0:
            rf = rf[:, :, :1].copy()       # (s, a) rewards handed over in the broadcastable S x A x 1 shape
        for budget in (2000, 1 + (cfg + prior_i) % 3):
            check_tensor_run(r, item, torch, entropy_regularized_policy_iteration, spec, spec_item, tf, rf, gamma, w, wv, ew, prior, prior_rows,
                             prior_opt, per_state_w, force, budget, S, A, names, cfg, prior_i)
    return r


def check_tensor_run(r, item, torch, entropy_regularized_policy_iteration, spec, spec_item, tf, rf, gamma, w, wv, ew, prior, prior_rows,
                     prior_opt, per_state_w, force, budget, S, A, names, cfg, prior_i):
    """One run with an iteration budget (the full 2000 or a tiny 1..3): whenever convergence is REPORTED the equations must hold."""
    if True:
        r.count('states')
        try:
            # "integer reward tensors": on every fourth configuration the rewards are handed over with an integer dtype
            rt = torch.from_numpy(rf.astype(np.int64)) if (cfg + prior_i) % 4 == 1 and (rf == np.round(rf)).all() else torch.from_numpy(rf)
            res = entropy_regularized_policy_iteration(
                transition_matrix=torch.from_numpy(tf), reward_matrix=rt, discount_rate=float(gamma),
                entropy_weight=ew, n_planning_iters=budget, policy_prior=prior, force_nonzero_probabilities=force)
        except Exception as e:
            r.violation('exception', {'error': repr(e)[:300], 'n_planning_iters': budget, 'reward_dtype': str(rt.dtype)}, item)
            return r
        if not res.converged:
            r.count('not_converged' if budget == 2000 else 'not_converged_within_tiny_budget')
            return r
        if budget != 2000:
            r.count('converged_within_tiny_budget')
        pi = res.policy.numpy().tolist()
        q = res.action_values.numpy().tolist()
        v = res.state_values.numpy().tolist()
        g = float(gamma)
        rmax = max(abs(x) for x in rf.flatten())
        scale = 1 + rmax / (1 - g)
        tol = 2e-4 * scale
        ctx = {'gamma': gamma, 'w': wv, 'prior': prior_rows, 'force': force, 'n_planning_iters': budget}
        for s in range(S):
            for ai in range(A):
                look = sum(tf[s, ai, ns] * (rf[s, ai, ns if rf.shape[2] > 1 else 0] + g * v[ns]) for ns in range(S))
                r.count('transitions')
                if not abs(q[s][ai] - look) <= tol:
                    r.violation('q_not_lookahead', dict(ctx, s=s, a=ai, q=q[s][ai], lookahead=look), item)
            xs = [q[s][ai] / wv[s] for ai in range(A)]
            lse = lse_weighted(xs, prior_rows[s])
            soft = [prior_rows[s][ai] * math.exp(xs[ai] - lse) for ai in range(A)]
            r.count('transitions', 2)
            if any(abs(pi[s][ai] - soft[ai]) > 1e-4 for ai in range(A)) or abs(sum(pi[s]) - 1) > 1e-6:
                r.violation('policy_not_softmax', dict(ctx, s=s, pi=pi[s], softmax=soft), item)
            if not abs(v[s] - wv[s] * lse) <= tol:
                r.violation('v_not_logsumexp', dict(ctx, s=s, v=v[s], want=wv[s] * lse), item)
        if any(max(q[s]) - min(q[s]) > 1e-6 for s in range(S)):
            r.nontriv((spec_item, cfg, prior_i))
        if prior_opt is None and not per_state_w:
            V, Q = refmdp.optimal(spec)
            # reward on zero-probability cells does not matter for Q*
            slack = g * w * math.log(A) / (1 - g) if A > 1 else 0.0
            for s in range(S):
                for ai, a in enumerate(names):
                    qs = float(Q[s, a])
                    r.count('transitions')
                    if not (qs - slack - tol <= q[s][ai] <= qs + tol):
                        r.violation('limit_bracket', dict(ctx, s=s, a=a, q=q[s][ai], qstar=qs, slack=slack), item)
        r.outcome((res.iterations,))
        if hash(repr(item)) % 2000 == 0:
            r.sample({'tensor_spec': repr(spec_item), 'gamma': gamma, 'w': wv, 'prior': prior_rows, 'force': force,
                      'iterations': res.iterations, 'v': v})
    return r


def check_wrapper(item, r, torch, Planner, fn):
    kind, spec_item, wi, prior_kind, tiny, _ = item
    budget = tiny if tiny else 2000
    spec = Spec(spec_item)
    w = WEIGHTS[wi]
    r.count('states')
    li = wi % 6
    # explicit state/action lists on every other item: states the initial distribution never reaches are part of the problem too
    mdp = build.SpecMDP(spec, ['int', 'rev', 'str', 'mix', 'tup', 'fd'][li], ['ab', 'rev', 'ab', 'mix', 'rev', 'fd'][li],
                        explicit_lists=(prior_kind + wi) % 2 == 0)
    # prior handed to the wrapper: default (uniform over available actions), shared 1xA, or per-state SxA (rows in the
    # order of mdp.state_list / mdp.action_list); the oracle below uses exactly the rows the user passed
    nS, nA = len(mdp.state_list), len(mdp.action_list)
    prior_arg, prior_rows = None, None
    if prior_kind == 1 and nA == 2:
        prior_rows = [[0.25, 0.75] for _ in range(nS)]
        prior_arg = torch.tensor([[0.25, 0.75]], dtype=torch.float64)
    elif prior_kind == 2 and nA == 2:
        prior_rows = [[0.25, 0.75] if i % 2 == 0 else [0.5, 0.5] for i in range(nS)]
        prior_arg = torch.tensor(prior_rows, dtype=torch.float64)
    try:
        res = Planner(iterations=budget, entropy_weight=w, policy_prior=prior_arg).plan_on(mdp)
    except Exception as e:
        r.violation('wrapper_exception', {'error': repr(e)[:300], 'iterations': budget}, item)
        return r
    if not res.converged:
        r.count('not_converged' if budget == 2000 else 'not_converged_within_tiny_budget')
        return r
    if tiny:
        r.count('converged_within_tiny_budget')
    g = float(spec.gamma)
    sl, al = mdp.sl, mdp.al
    present = [s for s in range(spec.n) if sl(s) in set(mdp.state_list)]
    rmax = max(abs(float(x)) for s in range(spec.n) for a in spec.acts[s] for x in spec.R[s][a].values())
    tol = 2e-4 * (1 + rmax / (1 - g))
    ctx = {'w': w, 'iterations': budget}
    for s in present:
        acts = spec.acts[s]
        V = {t: float(res.V[sl(t)]) for t in present}
        qv = {}
        for a in acts:
            look = sum(float(p) * (float(spec.R[s][a][ns]) + g * V[ns]) for ns, p in spec.T[s][a].items())
            qv[a] = float(res.Q[sl(s)][al(a)])
            r.count('transitions')
            if not abs(qv[a] - look) <= tol:
                r.violation('wrapper_q_not_lookahead', dict(ctx, s=s, a=a, q=qv[a], lookahead=look), item)
        xs = [qv[a] / w for a in acts]
        if prior_rows is None:
            pri = [1.0 / len(acts)] * len(acts)
        else:
            si = list(mdp.state_list).index(sl(s))
            pri = [prior_rows[si][list(mdp.action_list).index(al(a))] for a in acts]
        lse = lse_weighted(xs, pri)
        for a, x, p in zip(acts, xs, pri):
            got = float(res.policy[sl(s)][al(a)])
            if abs(got - p * math.exp(x - lse)) > 1e-4:
                r.violation('wrapper_policy_not_softmax', dict(ctx, s=s, a=a, got=got, want=p * math.exp(x - lse)), item)
        for a in 'abc':
            if a not in acts and al(a) in set(mdp.action_list) and float(res.policy[sl(s)][al(a)]) > 1e-12:
                r.violation('wrapper_policy_unavailable_action', dict(ctx, s=s, a=a), item)
        if not abs(V[s] - w * lse) <= tol:
            r.violation('wrapper_v_not_logsumexp', dict(ctx, s=s, v=V[s], want=w * lse), item)
        if len(acts) > 1 and max(qv.values()) - min(qv.values()) > 1e-6:
            r.nontriv(item)
    iv = sum(float(res.V[sl(s)]) * float(p) for s, p in spec.init.items())
    if abs(float(res.initial_value) - iv) > 1e-9 * max(1, abs(iv)):
        r.violation('wrapper_initial_value', {'got': float(res.initial_value), 'want': iv}, item)
    return r


def replay(rec):
    return check(item_from_record(rec), rec.get('tier', 'quick'))
