"""C07 -- POMDP belief updates follow Bayes' rule and the belief MDP is consistent.

E1 x E3: small POMDP specs (stochastic transitions x action-dependent observation kernels with zero
entries); from the initial belief a breadth-first search over the REAL BeliefMDP to depth D (states are
deduplicated by their exact rational belief, computed by the reference alongside), plus every belief of a
quarter lattice (vertices, zero components); on every belief x action x observation the dictionary and
vectorised filters, the predictive distributions and the belief-MDP transition / reward / absorption
are compared with the exact Bayes computation."""
import warnings
from fractions import Fraction as F

import numpy as np

from mc.run import Res, item_from_record
from mc import build, pomdpspec
from mc.pomdpspec import PSpec, SpecPOMDP

ID = 'C07'
RULE = ("POMDP specs: n=2 states x {1,2} actions x all outcome-distribution assignments {Dirac, 1/2-1/2} x reward patterns x "
        "observation kernels per action from a 10-kernel menu (revealing, uninformative, noisy, half-informative, swapped, explicit "
        "zero entries, rare observation with probability 1e-9, ...) x absorbing sets x initial beliefs x label variants (rotating); n=3 reduced. Per POMDP: BFS over beliefs "
        "reachable through the real BeliefMDP to depth D + quarter-lattice beliefs; every (belief, action, observation) incl. "
        "zero-probability observations. states = distinct (POMDP, exact belief) pairs; transitions = (belief, action, observation) "
        "filter evaluations + belief-MDP edges. Non-trivial = POMDP with >= 3 distinct reachable beliefs.")
ASSUMPTIONS = [
    "probabilities from {0,1/4,1/2,3/4,1}; tolerance 1e-12 absolute on probabilities (float vs exact rational)",
    "BFS states are deduplicated by the exact rational belief maintained by the reference, not by rounded floats",
    "all states offer the whole action list (the belief MDP does)",
]
BUDGET = {'quick': 900, 'thorough': 7200}
CHUNK = {'quick': 16, 'thorough': 16}
MANIFEST = {'engines': ['E1-enum', 'E3-bfs'],
            'technique': 'explicit-state BFS over the real belief MDP of enumerated POMDPs; every state/edge compared with an exact rational Bayes filter'}
SLAB = ['int', 'rev', 'str', 'mix', 'tup', 'fd']
ALAB = ['ab', 'rev', 'ab', 'mix', 'rev', 'fd']
OLAB = ['xy', 'int', 'mix']
TOL = 1e-12


def bounds(tier):
    return {'quick': {'n=2': 'depth 3 + quarter lattice; 1-2 actions, all pairs of the 9-kernel menu', 'n=3': 'depth 2 + lattice, 1 action'},
            'thorough': {'n=2': 'depth 4 + lattice, all kernel pairs (kernel level 2)', 'n=3': 'depth 3 + lattice, 1-2 actions reduced'}}[tier]


def items(tier, seed):
    RP = pomdpspec.REWARD_PATTERNS
    one = F(1)
    i = 0
    inits2 = [((0, one),), ((0, F(1, 4)), (1, F(3, 4)))]
    if tier == 'quick':
        gens = [
            pomdpspec.enum_pomdps(2, 1, 2, [RP['state']], [(), (1,), (0,)], inits2, [F(9, 10)], kernel_level=2),
            pomdpspec.enum_pomdps(2, 2, 1, [RP['mixed']], [(), (0,)], inits2[1:], [F(9, 10)], kernel_level=2),
            pomdpspec.enum_pomdps(3, 1, 1, [RP['state']], [(2,)], [((0, F(1, 2)), (1, F(1, 2)))], [F(9, 10)]),
        ]
    else:
        gens = [
            pomdpspec.enum_pomdps(2, 1, 2, [RP['state'], RP['minus1']], [(), (1,), (0,)], inits2, [F(9, 10)], kernel_level=2),
            pomdpspec.enum_pomdps(2, 2, 1, [RP['mixed'], RP['action']], [(), (1,)], inits2, [F(9, 10)], kernel_level=2),
            pomdpspec.enum_pomdps(3, 1, 1, [RP['state']], [(), (2,)], [((0, F(1, 2)), (1, F(1, 2)))], [F(9, 10)]),
            pomdpspec.enum_pomdps(3, 2, 0, [RP['mixed']], [(2,)], [((0, F(1, 2)), (1, F(1, 2)))], [F(9, 10)], kernel_pairs='some'),
        ]
    for gen in gens:
        for it in gen:
            i += 1
            if i % 2 == 0:
                # rewards that depend on the sampled successor (the belief reward weights them by the transition probabilities)
                it = (it[0], build.with_ns_rewards(it[1]), it[2])
            yield (it, (i + seed) % 6, (i // 6 + seed) % 3)


def close(a, b):
    return abs(float(a) - float(b)) <= TOL


def check(item, tier):
    from msdm.core.pomdp import BeliefMDP
    from msdm.core.pomdp.tabularpomdp import Belief
    from msdm.core.pomdp.alphavectorpolicy import AlphaVectorPolicy
    from msdm.core.distributions import DictDistribution
    r = Res()
    pitem, li, oi_ = item
    ps = PSpec(pitem)
    n = ps.n
    depth = {('quick', 2): 3, ('quick', 3): 2, ('thorough', 2): 4, ('thorough', 3): 3}[(tier, n)]
    with warnings.catch_warnings():
        warnings.simplefilter('ignore')
        pomdp = SpecPOMDP(ps, SLAB[li], ALAB[li], OLAB[oi_], explicit_lists=True)
        if (li + oi_) % 2 == 1:
            pomdp.obs_kind = 'special'      # Dirac / equal-probability observation kernels as Deterministic / Uniform distributions
        sl, al, ol = pomdp.sl, pomdp.al, pomdp.ol

        def bad(kind, detail, finding=None):
            r.violation(kind, detail, item, finding=finding)
        zero_obs_entry_unlisted = any(p == 0 and o not in ps.obs for d in ps.Oall.values() for o, p in d)
        try:
            slist = list(pomdp.state_list)
            alist = list(pomdp.action_list)
            olist = list(pomdp.observation_list)
            om = pomdp.observation_matrix
            tm = pomdp.transition_matrix
        except BaseException as e:
            bad('arrays_exception', {'error': repr(e)[:300], 'zero_entry_for_never_observed_observation': zero_obs_entry_unlisted})
            return r
        if set(olist) != {ol(o) for o in ps.obs} or len(set(olist)) != len(olist):
            bad('observation_list', {'got': [repr(o) for o in olist], 'want': ps.obs})
            return r
        for a in ps.anames:
            for ns in range(n):
                for o in ps.obs:
                    got = om[alist.index(al(a)), slist.index(sl(ns)), olist.index(ol(o))]
                    r.count('transitions')
                    if not close(got, ps.O[a, ns].get(o, 0)) or not close(pomdp.observation_dist(al(a), sl(ns)).prob(ol(o)), ps.O[a, ns].get(o, 0)):
                        bad('observation_matrix', {'a': a, 'ns': ns, 'o': o, 'got': float(got), 'want': ps.O[a, ns].get(o, 0)})
        bmdp = BeliefMDP(pomdp)
        policy = AlphaVectorPolicy(pomdp, np.zeros((1, n)))
        # ----- initial belief
        b0 = {s: ps.init.get(s, F(0)) for s in range(n)}
        try:
            (rb0, p0), = list(bmdp.initial_state_dist().items())
            if p0 != 1 or tuple(rb0.states) != tuple(slist) or any(not close(rb0.probs[slist.index(sl(s))], b0[s]) for s in range(n)):
                bad('initial_belief', {'got': repr(rb0)})
            ag0 = policy.initial_agentstate()
            if tuple(ag0.states) != tuple(slist) or any(not close(ag0.probs[slist.index(sl(s))], b0[s]) for s in range(n)):
                bad('initial_agentstate', {'got': repr(ag0)})
        except BaseException as e:
            bad('initial_belief_exception', {'error': repr(e)[:300]})
        # ----- BFS over exact beliefs, driving the real belief MDP
        key = lambda b: tuple(b.get(s, F(0)) for s in range(n))
        frontier = [(b0, 0, True)] + [(b, depth, False) for b in pomdpspec.lattice_beliefs(n)]
        seen = set()
        nreach = 0
        maxdepth = 0
        while frontier:
            b, d, reached = frontier.pop(0)
            k = key(b)
            if k in seen:
                continue
            seen.add(k)
            r.count('states')
            if reached:
                nreach += 1
            maxdepth = max(maxdepth, d)
            bel = Belief(tuple(slist), tuple(float(b.get(pomdp.s_of[ls], 0)) for ls in slist))
            bdict = DictDistribution({sl(s): float(p) for s, p in b.items()})
            bvec = np.array(bel.probs)
            # absorption
            want_abs = all((p == 0) or (s in ps.abs_explicit) for s, p in b.items())
            try:
                if bool(bmdp.is_absorbing(bel)) != want_abs:
                    bad('belief_is_absorbing', {'belief': b, 'got': bool(bmdp.is_absorbing(bel)), 'want': want_abs})
            except BaseException as e:
                bad('belief_is_absorbing_exception', {'error': repr(e)[:200]})
            for a in ps.anames:
                la = al(a)
                ai = alist.index(la)
                ctx = {'belief': b, 'a': a}
                pred = ps.predictive_obs(b, a)
                try:
                    po = pomdp.predictive_observation_dist(bdict, la)
                    pov = pomdp.predictive_observation_vec(bvec, ai)
                except BaseException as e:
                    bad('predictive_observation_exception', dict(ctx, error=repr(e)[:200]))
                    continue
                tot = sum(po.values())
                if abs(tot - 1) > 1e-9:
                    bad('predictive_observation_not_normalised', dict(ctx, total=tot))
                for o in ps.obs:
                    r.count('transitions')
                    if not close(po.prob(ol(o)), pred.get(o, 0)):
                        bad('predictive_observation_dist', dict(ctx, o=o, got=po.prob(ol(o)), want=pred.get(o, 0)))
                    if not close(pov[olist.index(ol(o))], pred.get(o, 0)):
                        bad('predictive_observation_vec', dict(ctx, o=o, got=float(pov[olist.index(ol(o))]), want=pred.get(o, 0)))
                if any(ol(o) not in [ol(x) for x in ps.obs] for o in []):
                    pass
                succ = {}
                for o in ps.obs:
                    lo = ol(o)
                    post = ps.posterior(b, a, o)
                    r.count('transitions')
                    try:
                        est = pomdp.state_estimator(bdict, la, lo)
                        estv = pomdp.state_estimator_vec(bvec, ai, olist.index(lo))
                        nag = policy.next_agentstate(bel, la, lo)
                    except BaseException as e:
                        bad('state_estimator_exception', dict(ctx, o=o, error=repr(e)[:200]))
                        continue
                    if post is None:
                        if len(est) != 0 or sum(est.values()) != 0:
                            bad('impossible_observation_posterior_not_empty', dict(ctx, o=o, got=dict(est)))
                        if float(estv.sum()) != 0:
                            bad('impossible_observation_vec_not_zero', dict(ctx, o=o, got=estv))
                        if any(p != 0 for p in nag.probs):
                            bad('impossible_observation_agentstate_not_empty', dict(ctx, o=o, got=repr(nag)))
                        continue
                    if abs(sum(est.values()) - 1) > 1e-9:
                        bad('posterior_not_normalised', dict(ctx, o=o, total=sum(est.values())))
                    for s in range(n):
                        w = post.get(s, F(0))
                        if not close(est.prob(sl(s)), w):
                            bad('state_estimator', dict(ctx, o=o, s=s, got=est.prob(sl(s)), want=w))
                        if not close(estv[slist.index(sl(s))], w):
                            bad('state_estimator_vec', dict(ctx, o=o, s=s, got=float(estv[slist.index(sl(s))]), want=w))
                        if not close(nag.probs[slist.index(sl(s))], w):
                            bad('policy_next_agentstate', dict(ctx, o=o, s=s, got=nag.probs[slist.index(sl(s))], want=w))
                    if tuple(nag.states) != tuple(slist):
                        bad('policy_next_agentstate_states', dict(ctx, o=o))
                    kk = key(post)
                    succ[kk] = succ.get(kk, F(0)) + pred[o]
                    if d < depth:
                        frontier.append((post, d + 1, True))
                # belief MDP edge
                try:
                    nd = bmdp.next_state_dist(bel, la)
                    rew = bmdp.reward(bel, la, None)
                except BaseException as e:
                    bad('belief_mdp_exception', dict(ctx, error=repr(e)[:200]))
                    continue
                r.count('transitions', len(nd))
                if abs(sum(nd.values()) - 1) > 1e-9:
                    bad('belief_mdp_not_normalised', dict(ctx, total=sum(nd.values())))
                mean = [0.0] * n
                matched = {}
                for nb, p in nd.items():
                    if tuple(nb.states) != tuple(slist) or abs(sum(nb.probs) - 1) > 1e-9:
                        bad('belief_mdp_successor_not_normalised', dict(ctx, successor=repr(nb)))
                        continue
                    vec = [nb.probs[slist.index(sl(s))] for s in range(n)]
                    for s in range(n):
                        mean[s] += p * vec[s]
                    hit = [kk for kk in succ if all(abs(float(kk[s]) - vec[s]) <= 1e-9 for s in range(n))]
                    if len(hit) != 1:
                        bad('belief_mdp_successor_unknown', dict(ctx, successor=vec, expected=[list(map(str, kk)) for kk in succ]))
                        continue
                    matched[hit[0]] = matched.get(hit[0], 0.0) + p
                for kk, w in succ.items():
                    if abs(matched.get(kk, 0.0) - float(w)) > 1e-9:
                        bad('belief_mdp_successor_probability', dict(ctx, successor=list(map(str, kk)), got=matched.get(kk, 0.0), want=w))
                predst = ps.predict_state(b, a)
                for s in range(n):
                    if abs(mean[s] - float(predst.get(s, 0))) > 1e-9:
                        bad('belief_mdp_mean_not_prediction', dict(ctx, s=s, got=mean[s], want=predst.get(s, 0)))
                if abs(float(rew) - float(ps.belief_reward(b, a))) > 1e-12 * max(1, abs(float(ps.belief_reward(b, a)))) + 1e-12:
                    bad('belief_mdp_reward', dict(ctx, got=float(rew), want=ps.belief_reward(b, a)))
        r.maxi('depth', maxdepth)
        if nreach >= 3:
            r.nontriv(pitem)
        # ---- outcomes listed with probability 0 are no outcomes: the same POMDP whose transition distributions also list a
        # never-entered state with probability 0 (for which the observation function is not defined) filters identically
        if (li + oi_) % 3 == 0:
            ghost = ('never', 'entered')

            class Ghosted(SpecPOMDP):
                def next_state_dist(self, s_, a_):
                    d = dict(SpecPOMDP.next_state_dist(self, s_, a_).items())
                    d[ghost] = 0.0
                    return DictDistribution(d)

                def observation_dist(self, a_, ns_):
                    if ns_ == ghost:
                        raise KeyError(ns_)
                    return SpecPOMDP.observation_dist(self, a_, ns_)

                def reward(self, s_, a_, ns_):
                    if ns_ == ghost:
                        raise KeyError((s_, a_, ns_))      # the reward function is not defined for a transition that cannot happen
                    return SpecPOMDP.reward(self, s_, a_, ns_)
            plain = SpecPOMDP(ps, SLAB[li], ALAB[li], OLAB[oi_])
            gh = Ghosted(ps, SLAB[li], ALAB[li], OLAB[oi_])
            listed = [x for x in plain.state_list]
            for bq in pomdpspec.lattice_beliefs(n):
                if any(p_ > 0 and sl(s_) not in listed for s_, p_ in bq.items()):
                    continue
                bd = DictDistribution({sl(s_): float(p_) for s_, p_ in bq.items() if p_ > 0})
                for a in ps.anames:
                    r.count('transitions')
                    try:
                        pred_p = {k: round(v, 12) for k, v in plain.predictive_observation_dist(bd, al(a)).items()}
                        pred_g = {k: round(v, 12) for k, v in gh.predictive_observation_dist(bd, al(a)).items()}
                        posts = [({k: round(v, 12) for k, v in plain.state_estimator(bd, al(a), o_).items()},
                                  {k: round(v, 12) for k, v in gh.state_estimator(bd, al(a), o_).items()}) for o_ in pred_p]
                        bm = {tuple(zip(k[0], [round(x, 12) for x in k[1]])): round(v, 12)
                              for k, v in BeliefMDP(gh).next_state_dist(Belief(tuple(listed), tuple(float(bd.prob(x)) for x in listed)), al(a)).items()}
                    except Exception as e:
                        bad('zero_probability_successor_is_treated_as_an_outcome', {'belief': bq, 'a': a, 'error': repr(e)[:200]})
                        break
                    try:
                        bb = Belief(tuple(listed), tuple(float(bd.prob(x)) for x in listed))
                        rew_p, rew_g = BeliefMDP(plain).reward(bb, al(a), None), BeliefMDP(gh).reward(bb, al(a), None)
                        avp = AlphaVectorPolicy(plain, np.eye(len(listed)))
                        avg = AlphaVectorPolicy(gh, np.eye(len(listed)))
                        av_p, av_g = avp.action_value(bb, al(a)), avg.action_value(bb, al(a))
                    except Exception as e:
                        bad('zero_probability_successor_is_treated_as_an_outcome', {'belief': bq, 'a': a, 'error': repr(e)[:200],
                                                                                     'where': 'belief reward / alpha-vector action value'})
                        break
                    if abs(rew_p - rew_g) > 1e-12 or abs(av_p - av_g) > 1e-12:
                        bad('filter_depends_on_a_zero_probability_successor', {'belief': bq, 'a': a, 'reward': [rew_p, rew_g], 'action_value': [av_p, av_g]})
                        break
                    if pred_p != pred_g or any(x != y for x, y in posts):
                        bad('filter_depends_on_a_zero_probability_successor', {'belief': bq, 'a': a, 'plain': repr(pred_p), 'ghosted': repr(pred_g)})
                        break
                else:
                    continue
                break
    if hash(repr(item)) % 2000 == 0:
        r.sample({'pomdp': repr(pitem), 'labels': (SLAB[li], ALAB[li], OLAB[oi_]), 'beliefs_explored': len(seen)})
    return r


def replay(rec):
    return check(item_from_record(rec), rec.get('tier', 'quick'))
