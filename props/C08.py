"""C08 -- PBVI never over-estimates and QMDP never under-estimates the optimal POMDP value.

E1 x E3: discounted POMDP specs x (horizon, epsilon, expansion budget) x every belief reached by a
breadth-first search (depth 2-3) from the initial belief plus a quarter lattice.  Oracle: own exact
(Fraction) expectimax over unnormalised beliefs in which absorbing states are zero-value sinks:
 * alpha vectors after j backups are values of j-step conditional plans, so
   pbvi.value(b) <= max(V*_j(b), V*_{j+1}(b)) with j learnt by wrapping point_based_value_iteration (tight);
   for long horizons: pbvi.value(b) <= U_d(b) + gamma^j*max(0,-Rmin)/(1-gamma), U_d = depth-d expectimax
   with exact MDP optima at the leaves;
 * qmdp.action_value(b,a) = sum_s b(s) Q*_MDP(s,a) (two-sided, exact reference) and
   qmdp.value(b) >= V*_d(b) + gamma^d*min(0,Rmin)/(1-gamma);
 * action_dist(b) is uniform over exactly the maximisers of the policy's own action_value;
 * state-revealing kernels: at vertices of the used belief set whose reachable vertices are all in the
   set, pbvi.value = exact j-step MDP optimum, and qmdp.value = V*_MDP."""
import math
import warnings
from fractions import Fraction as F

import numpy as np

from mc.run import Res, item_from_record
from mc import pomdpspec, refmdp
from mc.pomdpspec import PSpec, SpecPOMDP

ID = 'C08'
RULE = ("discounted POMDP specs (n=2: 1-2 actions, all Dirac/half-half transition assignments, 3 reward patterns of both signs, with and "
        "without an absorbing state, kernels from the 6-kernel menu; n=3 reduced) x rotating (horizon in {1..4,None}, epsilon in "
        "{1e-1,1e-3}, min_belief_expansions 0..3) x all beliefs within BFS depth D of the initial belief + quarter lattice. "
        "states = (POMDP, config, belief) triples; transitions = bound evaluations. Non-trivial = PBVI used >= 2 belief points and "
        "two actions have different exact one-step values somewhere.")
ASSUMPTIONS = [
    "optimal value semantics: absorbing states are zero-value sinks and the agent does not condition on non-termination (what the alpha-vector backup and QMDP both compute)",
    "tolerance 1e-9 on the tight finite-horizon bounds; exact MDP quantities via PolicyIteration compared at 1e-7",
    "horizon=None: the planner's own horizon is gamma^h * span <= epsilon with span = rmax - rmin (|r| for constant rewards), at least one backup; the check mirrors this only to know how many backups were possible",
]
BUDGET = {'quick': 900, 'thorough': 7200}
CHUNK = {'quick': 8, 'thorough': 8}
MANIFEST = {'engines': ['E1-enum', 'E3-bfs'],
            'technique': 'bounded-exhaustive POMDP enumeration + BFS over reachable beliefs; PBVI/QMDP values bracketed by exact rational finite-horizon expectimax'}
SLAB = ['int', 'rev', 'str', 'mix', 'tup', 'fd']
ALAB = ['ab', 'rev', 'ab', 'mix', 'rev', 'fd']
OLAB = ['xy', 'int', 'mix']
HORIZONS = [1, 2, 3, 4, None]
EPS = [1e-1, 1e-3, 10.0]     # 10.0: a threshold above the reward span (the computed horizon would be <= 0)


def bounds(tier):
    return {'quick': {'n=2': 'BFS depth 2 + lattice; 3 configs per POMDP', 'n=3': 'depth 1, 2 configs', 'expectimax depth': '<= 5 exact'},
            'thorough': {'n=2': 'BFS depth 3 + lattice; 6 configs per POMDP; kernel level 2', 'n=3': 'depth 2'}}[tier]


def items(tier, seed):
    RP = pomdpspec.REWARD_PATTERNS
    one = F(1)
    inits2 = [((0, F(1, 4)), (1, F(3, 4))), ((0, one),)]
    if tier == 'quick':
        gens = [
            pomdpspec.enum_pomdps(2, 1, 1, [RP['state'], RP['minus1']], [(), (1,)], inits2[:1], [F(9, 10)]),
            pomdpspec.enum_pomdps(2, 2, 1, [RP['mixed']], [(), (1,)], inits2[:1], [F(1, 2), F(9, 10)], kernel_pairs='some'),
            pomdpspec.enum_pomdps(3, 2, 0, [RP['mixed']], [(2,)], [((0, F(1, 2)), (1, F(1, 2)))], [F(9, 10)], kernel_pairs='some'),
        ]
    else:
        gens = [
            pomdpspec.enum_pomdps(2, 1, 1, [RP['state'], RP['minus1']], [(), (1,)], inits2, [F(1, 2), F(9, 10)], kernel_level=2),
            pomdpspec.enum_pomdps(2, 2, 1, [RP['mixed'], RP['action'], RP['state']], [(), (1,)], inits2[:1], [F(1, 2), F(9, 10)]),
            pomdpspec.enum_pomdps(3, 2, 0, [RP['mixed'], RP['minus1']], [(), (2,)], [((0, F(1, 2)), (1, F(1, 2)))], [F(9, 10)], kernel_pairs='some'),
        ]
    k = 3 if tier == 'quick' else 6
    i = 0
    for gen in gens:
        for it in gen:
            i += 1
            cfgs = sorted({((i + j + seed) % 5, (i // 5 + j) % 2 if (i + j) % 7 else 2, (i // 3 + j + seed) % 4) for j in range(k if it[1][1] == 2 else 2)})
            yield (it, (i + seed) % 6, (i // 2 + seed) % 3, tuple(cfgs))


class Expectimax:
    """Exact finite-horizon optimum over unnormalised beliefs; absorbing states are zero-value sinks."""

    def __init__(self, ps):
        self.ps = ps
        self.A = ps.absorbing()
        self.memo = {}

    def key(self, b):
        return tuple(b.get(s, F(0)) for s in range(self.ps.n))

    def step(self, b, a):
        """immediate reward and unnormalised successor beliefs per observation."""
        ps = self.ps
        rew = F(0)
        nxt = {}
        for s, p in b.items():
            if p == 0 or s in self.A:
                continue
            rew += p * ps.sa_reward(s, a)
            for ns, pt in ps.T[s][a].items():
                for o, po in ps.O[a, ns].items():
                    d = nxt.setdefault(o, {})
                    d[ns] = d.get(ns, F(0)) + p * pt * po
        return rew, nxt

    def value(self, b, k, leaf):
        """k-step optimum with leaf(b) at depth 0."""
        if k == 0:
            return leaf(b)
        kk = (self.key(b), k, id(leaf))
        if kk in self.memo:
            return self.memo[kk]
        best = None
        for a in self.ps.anames:
            rew, nxt = self.step(b, a)
            v = rew + self.ps.gamma * sum((self.value(nb, k - 1, leaf) for nb in nxt.values()), F(0))
            best = v if best is None or v > best else best
        self.memo[kk] = best
        return best


def check(item, tier):
    import msdm.algorithms.pointbasedvalueiteration as pb
    from msdm.algorithms.qmdp import QMDP
    from msdm.core.pomdp.tabularpomdp import Belief
    r = Res()
    pitem, li, oi_, cfgs = item
    ps = PSpec(pitem)
    n = ps.n
    g = ps.gamma
    A = ps.absorbing()
    depth = {('quick', 2): 2, ('quick', 3): 1, ('thorough', 2): 3, ('thorough', 3): 2}[(tier, n)]
    with warnings.catch_warnings():
        warnings.simplefilter('ignore')
        np.seterr(all='ignore')
        pomdp = SpecPOMDP(ps, SLAB[li], ALAB[li], OLAB[oi_])
        sl, al = pomdp.sl, pomdp.al
        slist = list(pomdp.state_list)
        if len(slist) != n:
            r.count('skipped_unreachable_states')
            return r
        alist = list(pomdp.action_list)
        em = Expectimax(ps)
        Vmdp, Qmdp = refmdp.optimal(ps)
        zero_leaf = lambda b: F(0)
        mdp_leaf = lambda b: sum((p * Vmdp[s] for s, p in b.items() if s not in A), F(0))
        rs = [ps.sa_reward(s, a) for s in range(n) if s not in A for a in ps.anames] or [F(0)]
        rmin, rmax = min(rs), max(rs)
        # beliefs: BFS from the initial belief through the exact filter + lattice
        b0 = {s: ps.init.get(s, F(0)) for s in range(n)}
        beliefs = {}
        frontier = [(b0, 0)]
        while frontier:
            b, d = frontier.pop(0)
            k = em.key(b)
            if k in beliefs:
                continue
            beliefs[k] = b
            if d < depth:
                for a in ps.anames:
                    for o in ps.obs:
                        post = ps.posterior(b, a, o)
                        if post is not None:
                            frontier.append((post, d + 1))
        for b in pomdpspec.lattice_beliefs(n):
            beliefs.setdefault(em.key(b), b)

        def bel(b):
            return Belief(tuple(slist), tuple(float(b.get(pomdp.s_of[ls], 0)) for ls in slist))

        def bad(kind, detail):
            r.violation(kind, detail, item)
        # ---------------- QMDP
        # planner objects are reusable: the same QMDP / PBVI instances first plan a sibling POMDP with the same
        # names and discount but different rewards (and one more absorbing state)
        sib_T = tuple(tuple((a, d, (tuple(2 - x for x in rw) if isinstance(rw, tuple) else 2 - rw)) for a, d, rw in row) for row in pitem[1][2])
        sib_item = ('pomdp', pitem[1][:2] + (sib_T, tuple(sorted(set(pitem[1][3]) | {n - 1}))) + pitem[1][4:], pitem[2])
        sibling = SpecPOMDP(PSpec(sib_item), SLAB[li], ALAB[li], OLAB[oi_])
        try:
            qplanner = QMDP()
            qplanner.plan_on(sibling)
            q = qplanner.plan_on(pomdp)
        except Exception as e:
            bad('qmdp_exception', {'error': repr(e)[:300]})
            q = None
        revealing = all(len(ps.O[a, ns]) == 1 for a in ps.anames for ns in range(n)) and \
            all(len({next(iter(ps.O[a, ns])) for ns in range(n)}) == n for a in ps.anames)
        if q is not None:
            for k, b in beliefs.items():
                rb = bel(b)
                r.count('states')
                for a in ps.anames:
                    want = sum((p * Qmdp[s, a] for s, p in b.items() if s not in A and p != 0), F(0))
                    got = q.policy.action_value(rb, al(a))
                    r.count('transitions')
                    if abs(got - float(want)) > 1e-7 * max(1, abs(float(want))):
                        bad('qmdp_action_value', {'belief': b, 'a': a, 'got': got, 'want': want})
                low = em.value(b, 3, zero_leaf) + g ** 3 * min(F(0), rmin) / (1 - g) * sum(p for s, p in b.items() if s not in A)
                qv = q.policy.value(rb)
                r.count('transitions')
                if qv < float(low) - 1e-7 * max(1, abs(float(low))):
                    bad('qmdp_value_below_optimal_lower_bound', {'belief': b, 'qmdp': qv, 'lower_bound_on_optimum': low})
                check_action_dist(q.policy, rb, alist, r, item, 'qmdp', b)
                try:
                    perm = Belief(tuple(reversed(rb[0])), tuple(reversed(rb[1])))
                    r.count('transitions')
                    if abs(float(q.policy.value(perm)) - float(qv)) > 1e-12 * max(1.0, abs(float(qv))):
                        bad('qmdp_value_depends_on_how_the_belief_is_written', {'belief': b, 'value': float(q.policy.value(perm)), 'expected': float(qv)})
                except Exception as e:
                    bad('qmdp_exception', {'error': repr(e)[:300], 'where': 'belief in reversed state order'})
        # ---------------- PBVI
        for (hi, ei, mi) in cfgs:
            horizon, eps, minexp = HORIZONS[hi], EPS[ei], mi
            ctx = {'horizon': horizon, 'epsilon': eps, 'min_belief_expansions': minexp}
            sar = pomdp.state_action_reward_matrix
            if horizon is None and float(sar.max()) == float(sar.min()):
                r.count('constant_reward_with_horizon_none')
            calls = []
            orig = pb.point_based_value_iteration

            def wrapped(pomdp_, belief_set, value_convergence_epsilon, horizon=None):
                out = orig(pomdp_, belief_set, value_convergence_epsilon=value_convergence_epsilon, horizon=horizon)
                calls.append((out['iterations'], np.array(belief_set), np.array(out['alpha_vectors'])))
                return out
            pb.point_based_value_iteration = wrapped
            try:
                planner = pb.PointBasedValueIteration(min_belief_expansions=minexp, max_belief_expansions=minexp + 4,
                                                      value_convergence_epsilon=eps, horizon=horizon)
                if (hi + mi) % 2 == 0:
                    try:
                        planner.plan_on(sibling)
                    except Exception:
                        pass
                    del calls[:]
                res = planner.plan_on(pomdp)
            except Exception as e:
                bad('pbvi_exception', dict(ctx, error=repr(e)[:300]))
                continue
            finally:
                pb.point_based_value_iteration = orig
            iters, used, alphas = calls[-1]
            if horizon is None:
                # the number of backups the planner allows itself: gamma^h * (reward span) <= epsilon, at least one backup; with
                # constant rewards the span is taken to be their magnitude (all-zero rewards: one backup)
                span = float(sar.max()) - float(sar.min())
                if span == 0:
                    span = abs(float(sar.max()))
                hmax = 1 if span == 0 else max(1, int(math.ceil(math.log(float(eps) / span) / math.log(float(g)))))
            else:
                hmax = horizon
            js = sorted({min(iters, hmax), min(iters + 1, hmax)})
            # convergence threshold: a run that stopped before its horizon claims that one more backup changes the value of
            # no belief point of the set it used by epsilon or more -- replay exactly one more backup (no early stop) and compare
            if iters < hmax - 1:
                try:
                    more = orig(pomdp, used, value_convergence_epsilon=float('-inf'), horizon=iters + 1)['alpha_vectors']
                    old_v = np.einsum('bs,bs->b', alphas, used)
                    new_v = np.einsum('bs,bs->b', np.array(more), used)
                    r.count('transitions')
                    r.count('stop_rule_checks')
                    if np.abs(new_v - old_v).max() >= eps + 1e-12:
                        bad('pbvi_stopped_before_reaching_its_convergence_threshold',
                            dict(ctx, backups=iters, change_of_next_backup=float(np.abs(new_v - old_v).max())))
                except Exception as e:
                    bad('pbvi_exception', dict(ctx, error=repr(e)[:300]))
            # outer loop: a run that made fewer rounds than max_belief_expansions stopped because the last two value functions
            # differ by less than epsilon on the whole (expanded) belief set -- in particular on every point the last round used
            if 2 <= len(calls) < minexp + 4:
                last_v = np.max(np.einsum('bs,ds->db', calls[-2][2], used), axis=-1)
                curr_v = np.max(np.einsum('bs,ds->db', alphas, used), axis=-1)
                r.count('transitions')
                r.count('outer_stop_rule_checks')
                if np.abs(last_v - curr_v).max() >= eps + 1e-12:
                    bad('pbvi_outer_loop_stopped_before_reaching_its_convergence_threshold',
                        dict(ctx, rounds=len(calls), change_between_last_two_rounds=float(np.abs(last_v - curr_v).max()),
                             belief_points=len(used)))
            elif len(calls) == 1 and minexp + 4 > 1:
                bad('pbvi_outer_loop_stopped_after_one_round', dict(ctx, rounds=1))
            if len(used) >= 2 and any(len({ps.sa_reward(s, a) for a in ps.anames}) > 1 for s in range(n) if s not in A):
                r.nontriv((pitem, hi, ei, mi))
            for k, b in beliefs.items():
                rb = bel(b)
                r.count('states')
                pv = float(res.policy.value(rb))
                r.count('transitions')
                if max(js) <= 5:
                    ub = max(em.value(b, j, zero_leaf) for j in js)
                    if pv > float(ub) + 1e-9 * max(1, abs(float(ub))):
                        bad('pbvi_value_exceeds_finite_horizon_optimum', dict(ctx, belief=b, pbvi=pv, optimum=ub, backups=js))
                else:
                    j = min(js)
                    mass = sum(p for s, p in b.items() if s not in A)
                    ub = em.value(b, 3, mdp_leaf) + g ** j * max(F(0), -rmin) / (1 - g) * mass
                    if pv > float(ub) + 1e-9 * max(1, abs(float(ub))):
                        bad('pbvi_value_exceeds_optimal_upper_bound', dict(ctx, belief=b, pbvi=pv, upper_bound=ub, backups=j))
                if q is not None:
                    j = min(js)
                    mass = sum(p for s, p in b.items() if s not in A)
                    slack = float(g ** j * max(F(0), -rmin) / (1 - g) * mass)
                    if pv > q.policy.value(rb) + slack + 1e-7 * max(1, abs(pv)):
                        bad('pbvi_exceeds_qmdp_by_more_than_slack', dict(ctx, belief=b, pbvi=pv, qmdp=q.policy.value(rb), slack=slack))
                check_action_dist(res.policy, rb, alist, r, item, 'pbvi', b, ctx)
                # the same belief written differently: a Belief whose states are listed in another order, and the plain
                # probability vector (list / numpy array in state_list order) that the policy also accepts
                try:
                    perm = Belief(tuple(reversed(rb[0])), tuple(reversed(rb[1])))
                    forms = {'belief_in_reversed_state_order': perm, 'list': list(rb[1]), 'numpy_vector': np.array(rb[1], dtype=float)}
                    # ... and as the library's own distribution objects
                    from msdm.core.distributions import DictDistribution as _DD, UniformDistribution as _UD, DeterministicDistribution as _Det
                    posi = [(x, q_) for x, q_ in zip(rb[0], rb[1]) if q_ > 0]
                    forms['DictDistribution'] = _DD({x: q_ for x, q_ in posi})
                    if len(posi) == 1:
                        forms['DeterministicDistribution'] = _Det(posi[0][0])
                    elif len({q_ for _, q_ in posi}) == 1:
                        forms['UniformDistribution'] = _UD([x for x, _ in posi])
                    for fname, fb in forms.items():
                        r.count('transitions')
                        alt = float(res.policy.value(fb))
                        if abs(alt - pv) > 1e-12 * max(1.0, abs(pv)):
                            bad('pbvi_value_depends_on_how_the_belief_is_written', dict(ctx, belief=b, form=fname, value=alt, expected=pv))
                        for a in ps.anames:
                            av0, av1 = float(res.policy.action_value(rb, al(a))), float(res.policy.action_value(fb, al(a)))
                            if abs(av0 - av1) > 1e-12 * max(1.0, abs(av0)):
                                bad('pbvi_action_value_depends_on_how_the_belief_is_written',
                                    dict(ctx, belief=b, form=fname, a=a, value=av1, expected=av0))
                except Exception as e:
                    bad('pbvi_exception', dict(ctx, error=repr(e)[:300], where='belief written as another form', belief=b))
                # one-step look-ahead (mechanism "alpha-vector value and one-step look-ahead action value"): recomputed with the
                # exact rational filter of the reference and the policy's own value() at the posterior beliefs
                for a in ps.anames:
                    look = float(sum((p * ps.sa_reward(s_, a) for s_, p in b.items() if p != 0), F(0)))
                    for o, po in ps.predictive_obs(b, a).items():
                        post = ps.posterior(b, a, o)
                        look += float(g) * float(po) * float(res.policy.value(bel(post)))
                    gotav = float(res.policy.action_value(rb, al(a)))
                    r.count('transitions')
                    if abs(gotav - look) > 1e-9 * max(1.0, abs(look)):
                        bad('pbvi_action_value_not_one_step_lookahead', dict(ctx, belief=b, a=a, got=gotav, want=look))
            # state-revealing kernels: after 4+ expansion rounds (each adds, per belief, its farthest new successor) the belief set
            # the alpha vectors were computed on contains every vertex reachable from the initial support (<= 3 states)
            if revealing and minexp >= 3:
                usedv0 = {tuple(np.round(u, 12)) for u in used}
                adj0 = ps.adjacency()
                seen0 = set()
                st0 = [s_ for s_, p_ in ps.init.items() if p_ > 0]
                first = True
                while st0:
                    u_ = st0.pop()
                    for v_ in adj0[u_]:
                        if v_ not in seen0:
                            seen0.add(v_)
                            st0.append(v_)
                for s_ in sorted(seen0):
                    vert = tuple(1.0 if pomdp.s_of[ls] == s_ else 0.0 for ls in slist)
                    r.count('transitions')
                    if vert not in usedv0:
                        bad('pbvi_belief_set_misses_reachable_vertex', dict(ctx, vertex=s_, used=[list(map(float, u)) for u in used]))
            # fully observable kernels: exact at vertices of the used belief set that are closed
            if revealing and max(js) <= 5:
                usedv = {tuple(np.round(u, 12)) for u in used}
                verts = {s for s in range(n) if tuple(1.0 if pomdp.s_of[ls] == s else 0.0 for ls in slist) in usedv}
                adj = ps.adjacency()
                reach = refmdp.reach_sets([adj[s] if s not in A else set() for s in range(n)], n)
                for s in verts:
                    if not reach[s] <= verts:
                        continue
                    # the alpha vectors are those of j backups, j one of the (at most two) counts the stop rule leaves open
                    wants = [em.value({s: F(1)}, j, zero_leaf) for j in js]
                    pv = float(res.policy.value(bel({s: F(1)})))
                    r.count('transitions')
                    r.count('fully_observable_vertex_checks')
                    if not any(abs(pv - float(want)) <= 1e-9 * max(1, abs(float(want))) for want in wants):
                        bad('pbvi_fully_observable_vertex_value', dict(ctx, s=s, pbvi=pv, want=wants, backups=js))
                    if q is not None and abs(q.policy.value(bel({s: F(1)})) - float(Vmdp[s] if s not in A else 0)) > 1e-7 * max(1, abs(float(Vmdp[s]))):
                        bad('qmdp_fully_observable_vertex_value', dict(ctx, s=s, qmdp=q.policy.value(bel({s: F(1)})), want=Vmdp[s]))
    if hash(repr(item)) % 700 == 0:
        r.sample({'pomdp': repr(pitem), 'configs(h,eps,minexp)': [(HORIZONS[a], EPS[b], c) for a, b, c in cfgs], 'beliefs': len(beliefs)})
    return r


def check_action_dist(policy, rb, alist, r, item, name, b, ctx=None):
    try:
        ad = {a: p for a, p in policy.action_dist(rb).items() if p > 0}
        av = {a: policy.action_value(rb, a) for a in alist}
    except Exception as e:
        r.violation(name + '_action_dist_exception', {'error': repr(e)[:200], 'belief': b}, item)
        return
    m = max(av.values())
    best = {a for a, v in av.items() if v == m}
    r.count('transitions')
    if set(ad) != best or any(abs(p - 1 / len(best)) > 1e-12 for p in ad.values()):
        r.violation(name + '_action_dist_not_uniform_over_maximisers',
                    dict(ctx or {}, belief=b, dist={repr(k): v for k, v in ad.items()}, action_values={repr(k): v for k, v in av.items()}), item)


def replay(rec):
    return check(item_from_record(rec), rec.get('tier', 'quick'))
