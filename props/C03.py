"""C03 -- LAO* with an admissible heuristic returns an optimal closed policy.

E1 x E2: small MDP specs (discounted, or undiscounted with every policy proper) x admissible
heuristics x ordering options; for each, EVERY pseudo-random answer LAO* can receive (the sort keys
that order initial states, actions and successors) is enumerated by the stateless explorer, and every
execution is compared with the exact optimum."""
import warnings
from fractions import Fraction as F
from itertools import product

import numpy as np

from mc.run import Res, item_from_record
from mc import refmdp, build
from mc.refmdp import Spec, NEG_INF
from mc.explore import Explorer, patched_random

ID = 'C03'
RULE = ("MDP specs (n<=2 Cartesian, n=3 chain family; discounted, or undiscounted with every deterministic policy proper -- decided "
        "exactly) x 4 admissible heuristics {bound, V*, V*+1/2, V*+1/2 on absorbing states only} x (randomize_action_order, "
        "randomize_nextstate_order) x ALL answers of the seeded generator (stateless exploration, full branching for n<=2, "
        "deviation bound for n=3). states/transitions = nodes/edges of the explored answer trees; an execution = one complete "
        "LAO* run. Non-trivial = the instance has >= 2 distinct executions (answer sequences). Plus a deep-graph leg: corridors of "
        "5..8 (thorough ..10) states x 4 variants x dynamic_programming_iterations k in 1..3 (thorough ..5), one deterministic run "
        "each (ancestor chains longer than k; runs in which the library's own 'policy iteration converged' assertion fires are "
        "outside the statement and only counted).")
ASSUMPTIONS = [
    "alphabet as C01; heuristics from a 4-element admissible menu",
    "random() draws are observed by LAO* only through comparisons (sort keys) -- any arithmetic on a draw is a harness error",
    "value tolerances 1e-6 (LAO* rounds action values to 10 decimals); policy optimality is decided exactly in rationals",
]
BUDGET = {'quick': 900, 'thorough': 7200}
CHUNK = {'quick': 8, 'thorough': 8}
MANIFEST = {'engines': ['E1-enum', 'E2-explore'],
            'technique': 'stateless exhaustive exploration of all pseudo-random answers of the real LAO* on enumerated MDPs vs exact optimum'}
HEUR = ['bound', 'exact', 'exact+half', 'half_on_absorbing']
SLAB = ['int', 'rev', 'str', 'mix', 'tup', 'fd', 'falsy']
ALAB = ['ab', 'rev', 'ab', 'mix', 'rev', 'fd', 'falsy']


def bounds(tier):
    return {'quick': {'n<=2': 'full branching (every answer sequence)', 'n=3': 'deviation bound 2', 'max_points': 60,
                      'flags': '1 of 4 (rotating) per spec', 'heuristics': 4},
            'thorough': {'n<=2': 'full branching, 2 of 4 flag combinations (rotating)', 'n=3': 'deviation bound 3',
                         'max_points': 80}}[tier]


def spec_items(tier):
    AS = [('a',), ('a', 'b')]
    yield from build.enum_mdps(1, [('a',), ('a', 'b')], 0, [F(-1), F(0), F(1)], [(), (0,)], build.INIT_MENU[1], [F(9, 10), F(1)])
    if tier == 'quick':
        yield from build.enum_mdps(2, AS, 1, [F(-1), F(1)], [(), (1,)], [build.INIT_MENU[2][0], build.INIT_MENU[2][2]], [F(9, 10)])
        yield from build.enum_mdps(2, AS, 1, [F(-1), F(0)], [(), (1,)], [build.INIT_MENU[2][0], build.INIT_MENU[2][2]], [F(1)])
        yield from build.enum_mdps(2, AS, 1, [F(0), F(1)], [()], [build.INIT_MENU[2][0]], [F(9, 10)])      # sparse rewards: V* = 0 at non-absorbing states
        yield from sparse3(full=False)
        # undiscounted and proper with rewards of either sign
        yield from build.enum_mdps(2, AS, 1, [F(-1), F(1)], [(1,)], [build.INIT_MENU[2][0], build.INIT_MENU[2][2]], [F(1)],
                                   nonpositive_when_undiscounted=False)
        yield from build.chain_mdps(3, [F(1)], [F(-1), F(0)])
    else:
        yield from build.enum_mdps(2, [('a',), ('b',), ('a', 'b')], 1, [F(-1), F(0), F(1)], [(), (1,), (0,)], build.INIT_MENU[2][:3:2],
                                   [F(9, 10), F(1)])
        yield from build.chain_mdps(3, [F(9, 10), F(1)], [F(-1), F(0)])
        yield from build.enum_mdps(3, AS, 1, [F(-1)], [(2,)], [build.INIT_MENU[3][0], build.INIT_MENU[3][1]], [F(1)])
        yield from sparse3(full=True)
        yield from build.enum_mdps(2, AS, 1, [F(-1), F(0), F(2)], [(1,), (0,)], [build.INIT_MENU[2][0], build.INIT_MENU[2][2]], [F(1)],
                                   nonpositive_when_undiscounted=False)


def sparse3(full):
    """n = 3, discounted, rewards {0,1}: state 0 has two actions, states 1 and 2 one (Dirac outcomes unless full):
    zero-value non-absorbing states next to rewarding ones, revised in different orders."""
    one = F(1)
    d3 = build.dist_menu(3, 1)
    dir3 = [d for d in d3 if len(d) == 1]
    per0 = [(d, r) for d in d3 for r in (F(0), F(1))]
    per12 = [(d, r) for d in (d3 if full else dir3) for r in (F(0), F(1))]
    for (da, ra), (db, rb) in product(per0, repeat=2):
        for (d1, r1) in per12:
            for (d2, r2) in per12:
                T = ((('a', da, ra), ('b', db, rb)), (('a', d1, r1),), (('a', d2, r2),))
                yield ('mdp', 3, T, (), ((0, one),), F(9, 10))


def items(tier, seed):
    for i, it in enumerate(spec_items(tier)):
        if i % 3 == 2:
            it = build.with_ns_rewards(it)
        if i % 7 == 4 and it[1] <= 2:
            # a listed outcome with probability 0 (existing state / a state nothing leads to / an entry of the initial
            # distribution) is no outcome: it must not become part of the search
            it = build.with_zero_entry(it, ('outside', 'inside', 'zero_init')[(i // 7 + seed) % 3])[0]
        flags = [(i + seed) % 4] if tier == 'quick' else [(i + seed) % 4, (i + seed + 1 + (i // 4) % 3) % 4]
        yield (it, (i + seed) % len(SLAB), tuple(sorted(set(flags))))
    for i, it in enumerate(corridors(tier)):
        for k in (1, 2, 3) if tier == 'quick' else (1, 2, 3, 4, 5):
            yield ('dpk', it, k, (i + k + seed) % len(SLAB))


def corridors(tier):
    """Deep solution graphs: corridors of 5..8 (thorough ..10) states whose ancestor chains are longer than the
    dynamic-programming iteration budget k the planner is given (the budget bounds policy-iteration sweeps, not how
    far a revision reaches).  Variants: plain, a costly shortcut at the root, a 1/4 chance of staying put."""
    one = F(1)
    for n in (5, 6, 7, 8) if tier == 'quick' else (5, 6, 7, 8, 9, 10):
        for g in (F(9, 10), F(1)):
            for variant in ('plain', 'shortcut', 'sticky', 'shortcut_mid'):
                rows = []
                for s in range(n - 1):
                    fwd = ((s + 1, one),) if variant != 'sticky' else ((s + 1, F(3, 4)), (s, F(1, 4)))
                    row = [('a', fwd, F(-1))]
                    if (variant == 'shortcut' and s == 0) or (variant == 'shortcut_mid' and s == 1):
                        row.append(('b', ((n - 1, one),), -F(2 * (n - 1 - s) - 1, 2)))       # half a step cheaper than walking
                    rows.append(tuple(row))
                rows.append((('a', ((n - 1, one),), F(0)),))
                yield ('mdp', n, tuple(rows), (n - 1,), ((0, one),), g)


def make_heuristic(kind, spec, V, mdp):
    A = spec.absorbing()
    g = spec.gamma
    if kind == 'bound':
        if g < 1:
            c = float(max(F(0), spec.max_reward()) / (1 - g))
        elif spec.max_reward() > 0:
            c = float(max([F(0)] + [v for v in V if v != NEG_INF])) + 1.0      # undiscounted with positive rewards: a constant above every V*
        else:
            c = 0.0
        if spec.n % 2 == 0:
            return c        # a plain number is accepted as a constant heuristic
        return lambda s: c
    if kind == 'exact':
        return lambda s: float(V[mdp.s_of[s]])
    if kind == 'exact+half':
        return lambda s: float(V[mdp.s_of[s]]) + 0.5
    return lambda s: float(V[mdp.s_of[s]]) + (0.5 if mdp.s_of[s] in A else 0.0)


def in_scope(spec):
    if spec.dead_ends():
        return False
    if spec.gamma < 1:
        return True
    # undiscounted: every deterministic policy reaches an (explicitly) absorbing state with probability 1; rewards of either sign
    return refmdp.all_proper(spec, explicit_only=True, only_reachable=True)


def fingerprint(res, mdp, spec):
    pol = []
    for s in range(spec.n):
        try:
            pol.append(tuple(sorted((repr(a), round(p, 12)) for a, p in res.policy.action_dist(mdp.sl(s)).items())))
        except Exception as e:
            pol.append(type(e).__name__)
    return (bool(res.converged), round(float(res.initial_value), 9),
            tuple(sorted((repr(k), round(float(v), 9)) for k, v in res.state_value_map.items())), tuple(pol), res.iterations)


def judge(res, mdp, spec, V, r, item, ctx, listener_violations):
    sl, al = mdp.sl, mdp.al

    def bad(kind, detail):
        d = dict(ctx)
        d.update(detail)
        r.violation(kind, d, item)
    for lv in listener_violations:
        bad(lv[0], lv[1])
    if not res.converged:
        bad('not_converged', {'iterations': res.iterations})
        return
    want = sum((p * V[s] for s, p in spec.init.items() if p > 0), F(0))
    if abs(float(res.initial_value) - float(want)) > 1e-6:
        bad('initial_value', {'got': float(res.initial_value), 'want': want})
    for ls, v in res.state_value_map.items():
        s = mdp.s_of[ls]
        if float(v) < float(V[s]) - 1e-6:
            bad('value_below_optimum', {'s': s, 'value': float(v), 'Vstar': V[s]})
    # closed policy: BFS over what it reaches itself
    pi = {}
    frontier = [s for s, p in spec.init.items() if p > 0]
    seen = set(frontier)
    A = spec.absorbing()
    ok = True
    while frontier:
        s = frontier.pop()
        if s in A:
            continue
        try:
            ad = dict(res.policy.action_dist(sl(s)).items())
        except BaseException as e:
            bad('policy_undefined_on_reachable_state', {'s': s, 'error': repr(e)[:200]})
            ok = False
            continue
        row = {mdp.a_of.get(a, a): p for a, p in ad.items() if p > 0}
        if not row or not set(row) <= set(spec.acts[s]) or abs(sum(row.values()) - 1) > 1e-9:
            bad('policy_unavailable_action', {'s': s, 'row': {repr(k): v for k, v in row.items()}, 'available': spec.acts[s]})
            ok = False
            continue
        pi[s] = {a: F(p).limit_denominator(64) for a, p in row.items()}
        for a in row:
            for ns in spec.T[s][a]:
                if ns not in seen:
                    seen.add(ns)
                    frontier.append(ns)
    if ok:
        full = {s: pi.get(s, {spec.acts[s][0]: F(1)}) for s in range(spec.n)}
        Vpi, _ = refmdp.eval_policy(spec, full)
        got = F(0)
        for s, p in spec.init.items():
            if p > 0:
                if Vpi[s] == NEG_INF:
                    got = NEG_INF
                    break
                got += p * Vpi[s]
        if got != want:
            bad('policy_return_suboptimal', {'return': got, 'optimal': want, 'pi': pi})


def check_dpk(item, tier):
    """One deterministic run per heuristic with a small dynamic-programming iteration budget.  The budget only limits
    the number of policy-iteration sweeps of a revision (the library asserts that they sufficed -- if that assertion
    fires the configuration is outside the statement and only counted); whenever the run completes, everything the
    statement promises must hold."""
    import traceback
    from msdm.algorithms.laostar import LAOStar
    r = Res()
    _, spec_item, k, li = item
    spec = Spec(spec_item)
    V, Q = refmdp.optimal(spec)
    with warnings.catch_warnings():
        warnings.simplefilter('ignore')
        np.seterr(all='ignore')
        mdp = build.SpecMDP(spec, SLAB[li], ALAB[li])
        for hk in ('bound', 'exact+half'):
            h = make_heuristic(hk, spec, V, mdp)
            ctx = {'heuristic': hk, 'dynamic_programming_iterations': k}
            fps = []
            for rep in range(2):
                try:
                    res = LAOStar(heuristic=h, seed=3, dynamic_programming_iterations=k, max_lao_star_iterations=400).plan_on(mdp)
                except AssertionError as e:
                    if traceback.extract_tb(e.__traceback__)[-1].name == '_policy_iteration':
                        r.count('dp_budget_exhausted')
                    else:
                        r.violation('exception', dict(ctx, error=repr(e)[:300]), item)
                    break
                except np.linalg.LinAlgError as e:
                    r.violation('exception', dict(ctx, error=repr(e)[:300]), item)
                    break
                r.count('executions')
                r.count('budget_runs')
                if rep == 0:
                    judge(res, mdp, spec, V, r, item, ctx, [])
                    r.outcome((spec_item, hk, k, fingerprint(res, mdp, spec)))
                fps.append(fingerprint(res, mdp, spec))
            if len(fps) == 2 and fps[0] != fps[1]:
                r.violation('replay_nondeterministic', ctx, item)
            if fps:
                r.nontriv((spec_item, hk, k))
    return r


def check(item, tier):
    from msdm.algorithms.laostar import LAOStar, LAOStarEventListener
    if item[0] == 'dpk':
        return check_dpk(item, tier)
    r = Res()
    spec_item, li, flagset = item
    spec = Spec(spec_item)
    if not in_scope(spec):
        r.count('out_of_scope')
        return r
    try:
        V, Q = refmdp.optimal(spec)
    except ValueError:
        r.count('out_of_scope')        # the exact optimum is not finite (a rewarding closed loop among states nothing leads to)
        return r
    with warnings.catch_warnings():
        warnings.simplefilter('ignore')
        np.seterr(all='ignore')
        mdp = build.SpecMDP(spec, SLAB[li], ALAB[li], dist_kind=['dict', 'uniform', 'det'][(li + len(flagset) + spec.n) % 3])
        sib_T = tuple(tuple((a, d, (tuple(x - 3 for x in rw) if isinstance(rw, tuple) else rw - 3)) for a, d, rw in row) for row in spec_item[2])
        sibling = build.SpecMDP(Spec(spec_item[:2] + (sib_T, tuple(sorted(set(spec_item[3]) | {spec.n - 1}))) + spec_item[4:]), SLAB[li], ALAB[li])
        for hk in HEUR:
            h = make_heuristic(hk, spec, V, mdp)
            for fl in flagset:
                rao, rns = bool(fl & 1), bool(fl & 2)
                ctx = {'heuristic': hk, 'randomize_action_order': rao, 'randomize_nextstate_order': rns}
                lviol = []

                class Listener(LAOStarEventListener):
                    def __init__(self):
                        self.expanded = set()

                    def main_lao_star_loop(self, lv):
                        g = lv['explicit_graph']
                        exp = {s for s, n in g.states_to_nodes.items() if n['expanded']}
                        if not self.expanded <= exp or len(exp) != len(self.expanded) + 1:
                            lviol.append(('expanded_set_not_growing', {'before': len(self.expanded), 'after': len(exp)}))
                        self.expanded = exp
                        for s, n in g.states_to_nodes.items():
                            if float(n['value']) < float(V[mdp.s_of[s]]) - 1e-6:
                                lviol.append(('value_below_optimum_during_search',
                                              {'s': mdp.s_of[s], 'value': float(n['value']), 'Vstar': V[mdp.s_of[s]], 'iteration': lv['i']}))

                reuse = (HEUR.index(hk) + fl) % 2 == 1

                def body(rng, seed=0):
                    planner = LAOStar(heuristic=h, randomize_action_order=rao, randomize_nextstate_order=rns,
                                      event_listener_class=Listener, seed=seed, max_lao_star_iterations=200)
                    if reuse:
                        # planner objects are reusable: the same instance first plans a sibling problem (rewards lowered,
                        # one more absorbing state) under default answers that are not explored
                        with patched_random(Explorer(bound=0, max_points=400)):
                            try:
                                planner.plan_on(sibling)
                            except BaseException:
                                pass
                    del lviol[:]
                    return planner.plan_on(mdp)

                if spec.n <= 2:
                    ex = Explorer(bound=None, max_points=60 if tier == 'quick' else 80, max_execs=20000)
                else:
                    ex = Explorer(bound=2 if tier == 'quick' else 3, max_points=60 if tier == 'quick' else 80, max_execs=20000)
                fps = {}

                def on_exec(out, e, trunc):
                    r.count('executions')
                    if trunc:
                        r.count('truncated_executions')
                        return
                    judge(out, mdp, spec, V, r, item, dict(ctx, schedule=e.devs()), list(lviol))
                    fp = fingerprint(out, mdp, spec)
                    fps[tuple(e.devs())] = fp
                    r.outcome((spec_item, hk, fl, fp))

                try:
                    with patched_random(ex):
                        ex.explore(body, on_exec)
                except (np.linalg.LinAlgError, AssertionError, KeyError, IndexError, TypeError, ValueError, AttributeError) as e:
                    import traceback
                    if not isinstance(e, (np.linalg.LinAlgError, AssertionError)) and \
                            '/msdm/' not in traceback.format_tb(e.__traceback__)[-1]:
                        raise       # not raised by the library: a harness problem
                    r.violation('exception', dict(ctx, error=repr(e)[:300]), item)
                    continue
                r.count('states', ex.states)
                r.count('transitions', ex.transitions)
                if ex.capped:
                    r.count('capped_instances')
                if ex.executions >= 2:
                    r.nontriv((spec_item, hk, fl))
                # replay determinism: first and last explored schedule re-run must reproduce the result
                for sched in list(fps)[-1:]:
                    with patched_random(ex):
                        out, trunc = ex.run_one(list(sched), body)
                    r.count('replays')
                    if trunc or fingerprint(out, mdp, spec) != fps[sched]:
                        r.violation('replay_nondeterministic', dict(ctx, schedule=list(sched)), item)
                # conformance: real seeds reproduce a path of the explored tree and the same result
                if hk == 'bound':
                    for seed in (0, 7):
                        real = LAOStar(heuristic=h, randomize_action_order=rao, randomize_nextstate_order=rns, seed=seed,
                                       max_lao_star_iterations=200).plan_on(mdp)
                        ex2 = Explorer(bound=None, max_points=200)
                        with patched_random(ex2, real_seed_from_arg=True):
                            out, trunc = ex2.run_one([], lambda rng: body(rng, seed=seed))
                        r.count('traces_validated')
                        leaf = tuple(t[3] for t in ex2.trace)
                        if trunc or fingerprint(out, mdp, spec) != fingerprint(real, mdp, spec):
                            r.violation('conformance_result_differs', dict(ctx, seed=seed), item)
                        elif ex.bound is None and not ex.capped and ex.truncated == 0 and leaf not in ex.leaves:
                            r.violation('conformance_path_not_explored', dict(ctx, seed=seed, leaf=list(leaf)), item)
                        judge(real, mdp, spec, V, r, item, dict(ctx, real_seed=seed), [])
                if hash(repr((item, hk, fl))) % 1500 == 0:
                    r.sample({'spec': repr(spec_item), 'heuristic': hk, 'flags': ctx, 'executions': ex.executions,
                              'distinct_results': len(set(fps.values())), 'Vstar': V})
    return r


def replay(rec):
    return check(item_from_record(rec), rec.get('tier', 'quick'))
