"""C14 -- policy roll-outs are valid trajectories and Monte-Carlo evaluation averages them.

E1 x E2: MDP / POMDP specs x policies x start state given / sampled x step caps 0..4; EVERY roll-out
(all answers of the supplied generator; the process-global generator is intercepted too, so a draw
taken from the wrong generator is seen) is enumerated by full branching.  Oracle: each roll-out is
validated step by step against the exact spec, and the SET of explored roll-outs with their branch
probabilities must equal the reference enumeration of positive-probability trajectories
(completeness, not only validity).  calc_returns is compared with the backward recursion on every
reward sequence over {-1,0,2} up to length 4; evaluate_on's statistics are recomputed from the
roll-outs it actually made (captured by wrapping run_on)."""
import math
import random as _random
import warnings
from fractions import Fraction as F
from itertools import product

import numpy as np

from mc.run import Res, item_from_record
from mc import refmdp, build, pomdpspec
from mc.refmdp import Spec
from mc.pomdpspec import PSpec, SpecPOMDP
from mc.explore import Explorer, ChoiceRandom

ID = 'C14'
RULE = ("MDP specs (n<=2 Cartesian reduced, n=3 chain family) x policies {deterministic, quarter-lattice stochastic; functional / tabular} "
        "x start {given state, sampled} x max_steps 0..4 x ALL roll-outs; POMDP specs x {QMDP, alpha-vector, stochastic controller} policies "
        "x max_steps 0..3 x all roll-outs; evaluate_on with n_simulations 1..2 x all roll-out tuples; calc_returns on all reward sequences. "
        "states/transitions = nodes/edges of the answer trees; execution = one roll-out (or one evaluate_on call). Non-trivial = instance "
        "with >= 2 distinct roll-outs.")
ASSUMPTIONS = [
    "Monte-Carlo evaluator convention (observed and replicated): the closing state of a roll-out counts as a visit with return 0, and its missing action (None) is ignored",
    "path probabilities compared at 1e-12 relative; rewards/probabilities from the exact spec",
    "the process-global random module is intercepted (choices/choice/random/shuffle/randint/sample); a draw from it when a generator was supplied is reported",
]
BUDGET = {'quick': 900, 'thorough': 7200}
CHUNK = {'quick': 4, 'thorough': 4}
MANIFEST = {'engines': ['E1-enum', 'E2-explore'],
            'technique': 'stateless exhaustive exploration of every roll-out of the real run_on/evaluate_on; explored set and branch probabilities compared with an exact trajectory enumeration'}
SLAB = ['int', 'rev', 'str', 'mix', 'tup', 'fd', 'falsy']
ALAB = ['ab', 'rev', 'ab', 'mix', 'rev', 'fd', 'falsy']


def bounds(tier):
    return {'quick': {'mdp caps': '0..4 full branching', 'pomdp caps': '0..3', 'evaluate_on': 'n_simulations 1..2, caps 1..2'},
            'thorough': {'mdp caps': '0..5', 'pomdp caps': '0..4', 'evaluate_on': 'n_simulations 1..3, caps 1..3'}}[tier]


def items(tier, seed):
    one = F(1)
    i = 0
    AS = [('a',), ('a', 'b')]
    mdps = list(build.enum_mdps(2, AS, 1, [F(-1), F(2)], [(), (1,)], [build.INIT_MENU[2][2]], [F(9, 10)]))
    step = 7 if tier == 'quick' else 2
    for it in mdps[(seed % step)::step]:
        i += 1
        if i % 2 == 0:
            it = build.with_ns_rewards(it)
        yield ('mdp', it, (i + seed) % len(SLAB))
    for it in list(build.chain_mdps(3, [F(1, 2)], [F(-1), F(0)]))[(seed % 5)::(5 if tier == 'quick' else 1)]:
        i += 1
        yield ('mdp', it[:4] + (((0, F(1, 2)), (1, F(1, 2))),) + it[5:], (i + seed) % len(SLAB))
    RP = pomdpspec.REWARD_PATTERNS
    poms = list(pomdpspec.enum_pomdps(2, 2, 1, [RP['mixed']], [(), (1,)], [((0, F(1, 4)), (1, F(3, 4)))], [F(9, 10)], kernel_pairs='some'))
    pstep = 23 if tier == 'quick' else 5
    for it in poms[(seed % pstep)::pstep]:
        i += 1
        yield ('pomdp', it, (i + seed) % len(SLAB))
    yield ('returns', None, 0)


# --------------------------------------------------------------------------- global generator trap
class GlobalTrap:
    """While active, the module-level functions of `random` are explorer points too and every use is recorded."""
    NAMES = ['random', 'choices', 'choice', 'shuffle', 'randint', 'sample', 'uniform', 'randrange']

    def __init__(self, ex):
        self.rng = ChoiceRandom(ex)
        self.used = []

    def __enter__(self):
        self.saved = {n: getattr(_random, n) for n in self.NAMES}
        for n in self.NAMES:
            def f(*a, _n=n, **k):
                self.used.append(_n)
                return getattr(self.rng, _n)(*a, **k)
            setattr(_random, n, f)
        return self

    def __exit__(self, *a):
        for n, f in self.saved.items():
            setattr(_random, n, f)
        return False


def path_prob(ex):
    p = 1.0
    for n, dev, sig, c, w, labels in ex.trace:
        if w is not None:
            p *= w[c] / math.fsum(w)
        else:
            p *= 1.0 / n
    return p


# --------------------------------------------------------------------------- MDP part
def policies_for(spec):
    """deterministic policies + a few stochastic ones on the quarter lattice: list of {s: {a: Fraction}}"""
    out = []
    per = []
    for s in range(spec.n):
        acts = spec.acts[s]
        if len(acts) == 1:
            per.append([{acts[0]: F(1)}])
        else:
            per.append([{acts[0]: F(1)}, {acts[1]: F(1)}, {acts[0]: F(1, 4), acts[1]: F(3, 4)}, {acts[0]: F(1, 2), acts[1]: F(1, 2)}])
    for combo in product(*per):
        out.append({s: combo[s] for s in range(spec.n)})
    return out[:12]


def ref_rollouts(spec, pi, start_dist, cap, absorbing):
    """{trajectory tuple: probability}; trajectory = (s0, (a, ns, r), (a, ns, r), ...)"""
    out = {}

    def rec(s, t, traj, p):
        if t == cap or s in absorbing:
            out[traj] = out.get(traj, F(0)) + p
            return
        for a, pa in pi[s].items():
            if pa == 0:
                continue
            for ns, pn in spec.T[s][a].items():
                rec(ns, t + 1, traj + ((a, ns, spec.R[s][a][ns]),), p * pa * pn)
    for s0, p0 in start_dist.items():
        if p0 > 0:
            rec(s0, 0, (s0,), p0)
    return out


def check_mdp(item, tier, r):
    from msdm.core.mdp import TabularPolicy, FunctionalPolicy
    from msdm.core.mdp.policy import Policy
    from msdm.core.distributions import DictDistribution
    _, spec_item, li = item
    spec = Spec(spec_item)
    A = spec.abs_explicit
    mdp = build.SpecMDP(spec, SLAB[li], ALAB[li], explicit_lists=True)
    sl, al = mdp.sl, mdp.al
    caps = range(0, 5 if tier == 'quick' else 6)
    for pidx, pi in enumerate(policies_for(spec)):
        if pidx % 2 == 0:
            pol = FunctionalPolicy(lambda ls, pi=pi: DictDistribution({al(a): float(p) for a, p in pi[mdp.s_of[ls]].items()}))
        else:
            data = np.array([[float(pi[mdp.s_of[ls]].get(mdp.a_of[la], 0)) for la in mdp.action_list] for ls in mdp.state_list])
            pol = TabularPolicy.from_state_action_lists(state_list=mdp.state_list, action_list=mdp.action_list, data=data)
        for cap in caps:
            for start in [None] + ([0] if cap % 2 == 0 else [spec.n - 1]):
                ctx = {'policy': pi, 'max_steps': cap, 'initial_state': start}
                start_dist = dict(spec.init) if start is None else {start: F(1)}
                want = ref_rollouts(spec, pi, start_dist, cap, A)
                got = {}
                ex = Explorer(bound=None, max_points=60, max_execs=5000)
                trap = [None]

                def body(rng):
                    with GlobalTrap(ex) as g:
                        trap[0] = g
                        return pol.run_on(mdp, initial_state=None if start is None else sl(start), max_steps=cap, rng=rng)

                def on_exec(out, e, trunc):
                    r.count('executions')
                    if trunc:
                        r.count('truncated_executions')
                        return
                    c = dict(ctx, schedule=e.devs())
                    if trap[0].used:
                        r.violation('mdp_rollout_used_global_generator', dict(c, calls=trap[0].used[:5]), item)
                    t = validate_mdp_rollout(out, mdp, spec, pi, cap, start, A, r, item, c)
                    if t is not None:
                        got[t] = got.get(t, 0.0) + path_prob(e)
                ex.explore(body, on_exec)
                r.count('states', ex.states)
                r.count('transitions', ex.transitions)
                if ex.capped:
                    r.count('capped_instances')
                    continue
                if set(got) != set(want):
                    r.violation('mdp_rollout_set_differs', dict(ctx, missing=[list(map(str, t)) for t in set(want) - set(got)][:3],
                                                                extra=[list(map(str, t)) for t in set(got) - set(want)][:3]), item)
                else:
                    for t, p in want.items():
                        if abs(got[t] - float(p)) > 1e-12 * max(1, float(p)):
                            r.violation('mdp_rollout_probability', dict(ctx, trajectory=list(map(str, t)), got=got[t], want=p), item)
                if len(want) >= 2:
                    r.nontriv((spec_item, pidx, cap, start))
                for t in list(got)[:20]:
                    r.outcome((spec_item, pidx, cap, start, t))
        # ---- evaluate_on: statistics recomputed from the roll-outs it actually made
        if pidx < 4:
            for nsim in ((1, 2) if tier == 'quick' else (1, 2, 3)):
                for cap in ((1, 2) if tier == 'quick' else (1, 2, 3)):
                    check_evaluate_on(pol, pi, mdp, spec, nsim, cap, r, item)
    if hash(repr(item)) % 50 == 0:
        r.sample({'kind': 'mdp', 'spec': repr(spec_item), 'one_policy': policies_for(spec)[-1]})


def validate_mdp_rollout(res, mdp, spec, pi, cap, start, A, r, item, ctx):
    steps = list(res.steps)

    def bad(kind, detail):
        r.violation(kind, dict(ctx, **detail), item)
    if not steps:
        bad('mdp_rollout_empty', {})
        return None
    s0 = mdp.s_of.get(steps[0].get('state'))
    if start is not None and s0 != start:
        bad('mdp_rollout_wrong_start', {'got': s0})
        return None
    if start is None and spec.init.get(s0, 0) == 0:
        bad('mdp_rollout_start_not_in_initial_support', {'got': s0})
        return None
    traj = (s0,)
    s = s0
    for t, st in enumerate(steps[:-1]):
        a = mdp.a_of.get(st.get('action'))
        ns = mdp.s_of.get(st.get('next_state'))
        if mdp.s_of.get(st.get('state')) != s:
            bad('mdp_rollout_steps_do_not_chain', {'t': t})
            return None
        if s in A:
            bad('mdp_rollout_continues_after_absorbing_state', {'t': t, 's': s})
            return None
        if a is None or pi[s].get(a, 0) == 0:
            bad('mdp_rollout_action_without_policy_support', {'t': t, 's': s, 'a': repr(st.get('action'))})
            return None
        if ns is None or spec.T[s][a].get(ns, 0) == 0:
            bad('mdp_rollout_impossible_successor', {'t': t, 's': s, 'a': a, 'ns': ns})
            return None
        if float(st.get('reward')) != float(spec.R[s][a][ns]):
            bad('mdp_rollout_reward', {'t': t, 'got': st.get('reward'), 'want': spec.R[s][a][ns]})
        if st.get('timestep') != t:
            bad('mdp_rollout_timestep', {'t': t, 'got': st.get('timestep')})
        traj += ((a, ns, spec.R[s][a][ns]),)
        s = ns
    last = steps[-1]
    if mdp.s_of.get(last.get('state')) != s or last.get('action') is not None:
        bad('mdp_rollout_closing_step', {'closing': repr(last)})
        return None
    nsteps = len(steps) - 1
    if nsteps > cap:
        bad('mdp_rollout_exceeds_cap', {'steps': nsteps})
    elif nsteps < cap and s not in A:
        bad('mdp_rollout_stopped_early', {'steps': nsteps, 'state': s})
    if len(res) != len(steps) or list(res.state) != [x.get('state') for x in steps] or \
            list(res.reward) != [x.get('reward', 0) for x in steps] or list(res.action) != [x.get('action') for x in steps]:
        bad('mdp_rollout_accessors', {})
    return traj


def check_evaluate_on(pol, pi, mdp, spec, nsim, cap, r, item):
    from msdm.core.mdp.policy import Policy
    g = float(spec.gamma)
    ctx = {'policy': pi, 'n_simulations': nsim, 'max_steps': cap, 'what': 'evaluate_on'}
    captured = []
    orig = type(pol).run_on

    ex = Explorer(bound=None, max_points=80, max_execs=3000)
    trap = [None]

    def body(rng):
        del captured[:]

        def spy(self, *a, **k):
            out = orig(self, *a, **k)
            captured.append(out)
            return out
        type(pol).run_on = spy
        try:
            with GlobalTrap(ex) as gt:
                trap[0] = gt
                return pol.evaluate_on(mdp, n_simulations=nsim, max_steps=cap, rng=rng) if not hasattr(pol, '_evaluate_on_discounted') \
                    else Policy.evaluate_on(pol, mdp, n_simulations=nsim, max_steps=cap, rng=rng)
        finally:
            type(pol).run_on = orig

    def on_exec(out, e, trunc):
        r.count('executions')
        if trunc:
            r.count('truncated_executions')
            return
        c = dict(ctx, schedule=e.devs())
        if trap[0].used:
            r.violation('evaluate_on_used_global_generator', dict(c, calls=trap[0].used[:5]), item)
        if len(captured) != nsim:
            r.violation('evaluate_on_number_of_rollouts', dict(c, got=len(captured)), item)
            return
        # its own roll-outs are roll-outs: sampled start, policy-supported actions, real steps, the step cap
        for res in captured:
            r.count('transitions')
            if validate_mdp_rollout(res, mdp, spec, pi, cap, None, set(spec.abs_explicit), r, item, dict(c, inside='evaluate_on')) is None:
                return
        # deterministic policy on a deterministic MDP: the exact evaluation truncated at the step cap
        det = all(len(spec.T[s_][a_]) == 1 for s_ in range(spec.n) for a_ in spec.acts[s_]) and \
            all(len([1 for q_ in pi[s_].values() if q_ > 0]) == 1 for s_ in range(spec.n) if pi.get(s_))
        if det:
            def exact_truncated(s_):
                tot, disc = 0.0, 1.0
                for _t in range(cap):
                    if s_ in spec.abs_explicit:
                        break
                    a_ = next(a for a, q_ in pi[s_].items() if q_ > 0)
                    ns_ = next(iter(spec.T[s_][a_]))
                    tot += disc * float(spec.R[s_][a_][ns_])
                    disc *= g
                    s_ = ns_
                return tot
            # the only randomness left is the sampled start of each roll-out
            want_iv = sum(exact_truncated(mdp.s_of[res.steps[0]['state']]) for res in captured) / nsim
            r.count('transitions')
            r.count('deterministic_truncated_evaluations')
            if abs(float(out.initial_value) - want_iv) > 1e-9:
                r.violation('evaluate_on_deterministic_case_differs_from_truncated_exact_evaluation',
                            dict(c, got=float(out.initial_value), want=want_iv), item)
        sv, cnt, av, ivs = {}, {}, {}, []
        for res in captured:
            rews = [float(x.get('reward', 0) or 0) for x in res.steps]
            rets = [0.0] * len(rews)
            acc = 0.0
            for k in range(len(rews) - 1, -1, -1):
                acc = rews[k] + g * acc
                rets[k] = acc
            ivs.append(rets[0])
            for x, ret in zip(res.steps, rets):
                ls, la = x.get('state'), x.get('action')
                sv.setdefault(ls, []).append(ret)
                if la is not None:
                    av.setdefault((ls, la), []).append(ret)
        def mean(xs): return sum(xs) / len(xs)
        if abs(float(out.initial_value) - mean(ivs)) > 1e-9:
            r.violation('evaluate_on_initial_value', dict(c, got=float(out.initial_value), want=mean(ivs)), item)
        if set(out.state_value.state_list) != set(sv):
            r.violation('evaluate_on_state_set', dict(c, got=[repr(x) for x in out.state_value.state_list]), item)
            return
        for ls, rets in sv.items():
            if abs(float(out.state_value[ls]) - mean(rets)) > 1e-9:
                r.violation('evaluate_on_state_value', dict(c, state=repr(ls), got=float(out.state_value[ls]), want=mean(rets)), item)
            if abs(float(out.state_occupancy[ls]) - len(rets) / nsim) > 1e-12:
                r.violation('evaluate_on_state_occupancy', dict(c, state=repr(ls), got=float(out.state_occupancy[ls]), want=len(rets) / nsim), item)
        for (ls, la), rets in av.items():
            got = float(out.action_value[ls][la])
            if abs(got - mean(rets)) > 1e-9:
                r.violation('evaluate_on_action_value', dict(c, state=repr(ls), action=repr(la), got=got, want=mean(rets)), item)
    ex.explore(body, on_exec)
    r.count('states', ex.states)
    r.count('transitions', ex.transitions)
    if ex.capped:
        r.count('capped_instances')
    if ex.executions >= 2:
        r.nontriv((repr(item), 'eval', repr(pi), nsim, cap))


# --------------------------------------------------------------------------- POMDP part
def check_pomdp(item, tier, r):
    import msdm.algorithms.pointbasedvalueiteration as pb
    from msdm.algorithms.qmdp import QMDP
    from msdm.core.pomdp.finitestatecontroller import StochasticFiniteStateController
    _, pitem, li = item
    ps = PSpec(pitem)
    n = ps.n
    A = ps.abs_explicit
    pomdp = SpecPOMDP(ps, SLAB[li], ALAB[li], 'xy', explicit_lists=True)
    sl, al = pomdp.sl, pomdp.al
    pols = []
    try:
        pols.append(('qmdp', QMDP().plan_on(pomdp).policy))
        pols.append(('pbvi', pb.PointBasedValueIteration(min_belief_expansions=1, max_belief_expansions=3, horizon=3).plan_on(pomdp).policy))
    except Exception as e:
        # the planners are only the source of value-based policies here, but without them this item loses two of its policies:
        # not silent (judged by C08; here a note in the evidence and a counter that keeps the run from being called exhaustive)
        r.count('planner_exceptions')
        r.count('capped_instances')
        r.notes.setdefault('planner_exception', {'item': repr(item)[:400], 'error': repr(e)[:300]})
    na, no = len(pomdp.action_list), len(pomdp.observation_list)
    act = np.array([[0.25, 0.75][:na] if na == 2 else [1.0], [1.0, 0.0][:na] if na == 2 else [1.0]])
    act = act / act.sum(-1, keepdims=True)
    obs = np.zeros((2, na, no, 2))
    obs[0, :, :, 1] = 0.5
    obs[0, :, :, 0] = 0.5
    obs[1, :, 0, 0] = 1.0
    if no > 1:
        obs[1, :, 1:, 1] = 1.0
    pols.append(('fsc', StochasticFiniteStateController(pomdp, act, obs, np.array([0.5, 0.5]))))
    for name, pol in pols:
        for cap in range(0, 4 if tier == 'quick' else 5):
            for start in (None, 0):
                ctx = {'policy': name, 'max_steps': cap, 'initial_state': start}
                start_dist = dict(ps.init) if start is None else {start: F(1)}
                got = {}
                ex = Explorer(bound=None, max_points=80, max_execs=6000)
                trap = [None]

                def body(rng):
                    with GlobalTrap(ex) as g:
                        trap[0] = g
                        return pol.run_on(pomdp, initial_state=None if start is None else sl(start), max_steps=cap, rng=rng)

                def on_exec(out, e, trunc):
                    r.count('executions')
                    if trunc:
                        r.count('truncated_executions')
                        return
                    c = dict(ctx, schedule=e.devs())
                    if trap[0].used:
                        r.violation('pomdp_rollout_used_global_generator', dict(c, calls=trap[0].used[:5]), item, finding='F3')
                    t = validate_pomdp_rollout(out, pomdp, ps, pol, cap, start, A, r, item, c)
                    if t is not None:
                        got[t] = got.get(t, 0.0) + path_prob(e)
                ex.explore(body, on_exec)
                r.count('states', ex.states)
                r.count('transitions', ex.transitions)
                if ex.capped:
                    r.count('capped_instances')
                    continue
                want = ref_pomdp_rollouts(ps, pomdp, pol, start_dist, cap, A)
                if set(got) != set(want):
                    r.violation('pomdp_rollout_set_differs', dict(ctx, missing=[repr(t) for t in set(want) - set(got)][:3],
                                                                  extra=[repr(t) for t in set(got) - set(want)][:3]), item)
                else:
                    for t, p in want.items():
                        if abs(got[t] - p) > 1e-12 * max(1, p):
                            r.violation('pomdp_rollout_probability', dict(ctx, trajectory=repr(t), got=got[t], want=p), item)
                if len(want) >= 2:
                    r.nontriv((pitem, name, cap, start))
    if hash(repr(item)) % 20 == 0:
        r.sample({'kind': 'pomdp', 'spec': repr(pitem), 'policies': [p[0] for p in pols]})


def agkey(ag):
    if hasattr(ag, 'probs'):
        return ('belief',) + tuple(round(float(p), 12) for p in ag.probs)
    return ('nodes',) + tuple(round(float(p), 12) for p in np.asarray(ag).ravel())


def ref_pomdp_rollouts(ps, pomdp, pol, start_dist, cap, A):
    out = {}
    sl, al, ol = pomdp.sl, pomdp.al, pomdp.ol

    def rec(s, ag, t, traj, p):
        if t == cap or s in A:
            out[traj] = out.get(traj, 0.0) + p
            return
        for la, pa in pol.action_dist(ag).items():
            if pa <= 0:
                continue
            a = pomdp.a_of[la]
            for ns, pn in ps.T[s][a].items():
                for o, po in ps.O[a, ns].items():
                    nag = pol.next_agentstate(ag, la, ol(o))
                    rec(ns, nag, t + 1, traj + ((a, ns, o),), p * float(pa) * float(pn) * float(po))
    for s0, p0 in start_dist.items():
        if p0 > 0:
            rec(s0, pol.initial_agentstate(), 0, (s0,), float(p0))
    return out


def validate_pomdp_rollout(traj, pomdp, ps, pol, cap, start, A, r, item, ctx):
    def bad(kind, detail):
        r.violation(kind, dict(ctx, **detail), item)
    if not traj:
        bad('pomdp_rollout_empty', {})
        return None
    s = pomdp.s_of.get(traj[0].state)
    if (start is not None and s != start) or (start is None and ps.init.get(s, 0) == 0):
        bad('pomdp_rollout_wrong_start', {'got': s})
        return None
    ag = pol.initial_agentstate()
    if agkey(traj[0].agentstate) != agkey(ag):
        bad('pomdp_rollout_initial_agentstate', {})
    key = (s,)
    for t, st in enumerate(traj[:-1]):
        a, ns, o = pomdp.a_of.get(st.action), pomdp.s_of.get(st.nextstate), pomdp.o_of.get(st.observation)
        if pomdp.s_of.get(st.state) != s or agkey(st.agentstate) != agkey(ag):
            bad('pomdp_rollout_steps_do_not_chain', {'t': t})
            return None
        if s in A:
            bad('pomdp_rollout_continues_after_absorbing_state', {'t': t})
            return None
        if a is None or float(dict(pol.action_dist(ag).items()).get(st.action, 0)) <= 0:
            bad('pomdp_rollout_action_without_policy_support', {'t': t, 'a': repr(st.action)})
            return None
        if ns is None or ps.T[s][a].get(ns, 0) == 0:
            bad('pomdp_rollout_impossible_successor', {'t': t, 's': s, 'a': a, 'ns': ns})
            return None
        if o is None or ps.O[a, ns].get(o, 0) == 0:
            bad('pomdp_rollout_impossible_observation', {'t': t, 'a': a, 'ns': ns, 'o': repr(st.observation)})
            return None
        if float(st.reward) != float(ps.R[s][a][ns]):
            bad('pomdp_rollout_reward', {'t': t, 'got': st.reward, 'want': ps.R[s][a][ns]})
        nag = pol.next_agentstate(ag, st.action, st.observation)
        if agkey(st.nextagentstate) != agkey(nag):
            bad('pomdp_rollout_agentstate_not_policy_update', {'t': t})
        key += ((a, ns, o),)
        s, ag = ns, nag
    last = traj[-1]
    if pomdp.s_of.get(last.state) != s or last.action is not None or agkey(last.agentstate) != agkey(ag):
        bad('pomdp_rollout_closing_step', {})
        return None
    nsteps = len(traj) - 1
    if nsteps > cap:
        bad('pomdp_rollout_exceeds_cap', {'steps': nsteps})
    elif nsteps < cap and s not in A:
        bad('pomdp_rollout_stopped_early', {'steps': nsteps, 'state': s})
    return key


# --------------------------------------------------------------------------- calc_returns
def check_returns(r, item):
    from msdm.core.mdp.policy import Policy
    for L in range(1, 5):
        for rs in product([-1, 0, 2], repeat=L):
            for g in (0.0, 0.5, 0.9, 1.0, 1, 0, np.float32(0.5), np.int64(1)):       # also discounts written as integers / numpy scalars
                try:
                    got = Policy.calc_returns(list(rs), g)
                except Exception as e:
                    r.count('transitions')
                    r.violation('calc_returns_exception', {'rewards': rs, 'gamma': repr(g), 'error': repr(e)[:200]}, item)
                    continue
                g = float(g)
                want = [0.0] * L
                acc = 0.0
                for k in range(L - 1, -1, -1):
                    acc = rs[k] + g * acc
                    want[k] = acc
                r.count('states')
                r.count('transitions')
                if len(got) != L or any(abs(float(x) - y) > 1e-12 for x, y in zip(got, want)):
                    r.violation('calc_returns', {'rewards': rs, 'gamma': g, 'got': [float(x) for x in got], 'want': want}, item)
                if len(set(rs)) > 1:
                    r.nontriv(('ret', rs, g))
    # long reward sequences (a return must not depend on the sequence being short)
    for L in (300, 1100, 1500):
        for pattern in ((1,), (-1, 0, 2), (0, 0, 0, 4)):
            rs = [pattern[i % len(pattern)] for i in range(L)]
            for g in (0.5, 0.9, 1.0):
                got = Policy.calc_returns(list(rs), g)
                want = [0.0] * L
                acc = 0.0
                for k in range(L - 1, -1, -1):
                    acc = rs[k] + g * acc
                    want[k] = acc
                r.count('states')
                r.count('transitions')
                if len(got) != L or any(not (abs(float(x) - y) <= 1e-9 * max(1.0, abs(y))) for x, y in zip(got, want)):
                    bad_at = next((k for k, (x, y) in enumerate(zip(got, want)) if not (abs(float(x) - y) <= 1e-9 * max(1.0, abs(y)))), None)
                    r.violation('calc_returns_long_sequence', {'length': L, 'pattern': pattern, 'gamma': g, 'first_bad_index': bad_at}, item)


def check(item, tier):
    r = Res()
    with warnings.catch_warnings():
        warnings.simplefilter('ignore')
        np.seterr(all='ignore')
        if item[0] == 'mdp':
            check_mdp(item, tier, r)
        elif item[0] == 'pomdp':
            check_pomdp(item, tier, r)
        else:
            check_returns(r, item)
    return r


def replay(rec):
    return check(item_from_record(rec), rec.get('tier', 'quick'))
