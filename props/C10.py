"""C10 -- TD learners' Q-tables are exactly their update rule applied to the experience.

E1 x E2: proper MDP specs x {Q-learning, SARSA, expected SARSA, double Q} x parameter settings; every
experienced history within deviation bound d of the fair default schedule is enumerated by the
stateless explorer.  A listener snapshots (s, a, r, ns, na) and the live table(s) after every step;
the oracle folds the published rule over the recorded experience (plain floats, same operation
order is NOT assumed: tolerance 1e-9) and compares after every step and at the end."""
import copy
import math
import warnings
from fractions import Fraction as F

from mc.run import Res, item_from_record
from mc import refmdp, build
from mc.refmdp import Spec
from mc.explore import Explorer, patched_random

ID = 'C10'
RULE = ("proper MDP specs (n=2 full menu, n=3 reduced) x 4 learners x rotating parameter settings drawn from step size {0,1/2,1} x "
        "epsilon {0,0.2,1} x temperature {0,1} x initial Q {0,1,callable} x episodes {1,2,3} x ALL experienced histories within "
        "deviation bound d. states/transitions = nodes/edges of the answer trees; execution = one complete training run whose every "
        "step is validated and re-folded. Non-trivial = instance with >= 2 distinct experienced histories.")
ASSUMPTIONS = [
    "fold tolerance 1e-9 absolute (the oracle recomputes each update from the recorded (s,a,r,ns,na) in plain floats)",
    "double Q-learning: the random choice of updated table and of the arg-max tie is not read from the schedule; a step is accepted iff SOME choice allowed by the published rule explains the observed tables",
    "bounds clause (gamma<1, step size in [0,1]): Q in [min(q0, Rmin/(1-gamma), Rmin), max(q0, Rmax/(1-gamma), Rmax)] -- the interval spanned by the initial values and the discounted reward bounds, closed under bootstrapping from absorbing states (worth 0)",
]
BUDGET = {'quick': 900, 'thorough': 7200}
CHUNK = {'quick': 2, 'thorough': 2}
MANIFEST = {'engines': ['E1-enum', 'E2-explore'],
            'technique': 'stateless deviation-bounded exhaustive exploration of all experienced histories of the real TD learners; every step re-folded by an independent reference'}
LEARNERS = ['QLearning', 'SARSA', 'ExpectedSARSA', 'DoubleQLearning']
STEP = [0.5, 1.0, 0.0]
EPS = [0.2, 0.0, 1.0]
TEMP = [0.0, 1.0, 0.01]      # 0.01: a small positive temperature (Q-values / temperature of several hundred)
INITQ = ['zero', 'one', 'callable', 'minus8']      # -8: with the temperature 0.01 the exponents are around -800
EPISODES = [2, 1, 3]
SLAB = ['int', 'rev', 'str', 'mix', 'tup', 'fd', 'falsy']
ALAB = ['ab', 'rev', 'ab', 'mix', 'rev', 'fd', 'falsy']


def bounds(tier):
    return {'quick': {'n=2': 'deviation bound 2', 'n=3': 'deviation bound 1', 'configs_per_spec': 3, 'max_points': 150},
            'thorough': {'n=2': 'deviation bound 3', 'n=3': 'deviation bound 2', 'configs_per_spec': 8, 'max_points': 250}}[tier]


def spec_items(tier):
    rb = lambda g: [F(-1), F(0)] if g == 1 else [F(-1), F(1)]
    inits2 = [((0, F(1)),), ((0, F(1, 2)), (1, F(1, 2)))]
    inits3 = [((0, F(1)),), ((1, F(1, 4)), (2, F(3, 4)))]
    yield from build.proper_mdps(2, [F(9, 10), F(1)], rb, inits2)
    if tier == 'quick':
        yield from build.proper_mdps(3, [F(9, 10)], lambda g: [F(-1)], inits3[:1], reduce_pairs=True,
                                     goal_opts=[(('a', ((2, F(1)),), F(0)),)])
    else:
        yield from build.proper_mdps(2, [F(9, 10)], lambda g: [F(-2), F(1)], inits2, dist_level=2)
        yield from build.proper_mdps(3, [F(9, 10), F(1)], lambda g: [F(-1), F(0)] if g == 1 else [F(-1), F(1)], inits3, reduce_pairs=True)


def items(tier, seed):
    k = 3 if tier == 'quick' else 8
    for i, it in enumerate(spec_items(tier)):
        if i % 3 == 2:
            it = build.with_ns_rewards(it)
        cfgs = []
        for j in range(k):
            x = i * k + j + seed
            cfgs.append((x % 3, (x // 3 + j) % 3, (x // 2) % 3, (x // 5 + j) % 4, (x // 7) % 3))
        yield (it, (i + seed) % len(SLAB), tuple(sorted(set(cfgs))))


def eps_softmax(avals, eps, temp):
    acts = list(avals)
    if temp == 0.0:
        m = max(avals.values())
        best = [a for a in acts if avals[a] == m]
        sm = {a: (1.0 / len(best) if a in best else 0.0) for a in acts}
    else:
        mx = max(avals.values())
        w = {a: math.exp((avals[a] - mx) / temp) for a in acts}
        z = sum(w.values())
        sm = {a: w[a] / z for a in acts}
    return {a: eps / len(acts) + (1 - eps) * sm[a] for a in acts}


def check(item, tier):
    import msdm.algorithms.tdlearning as td
    r = Res()
    spec_item, li, cfgs = item
    spec = Spec(spec_item)
    A = spec.abs_explicit
    g = float(spec.gamma)
    with warnings.catch_warnings():
        warnings.simplefilter('ignore')
        mdp = build.SpecMDP(spec, SLAB[li], ALAB[li], dist_kind=['dict', 'uniform', 'det'][(li + len(cfgs)) % 3])
        sl, al = mdp.sl, mdp.al
        rmin, rmax = float(spec.min_reward()), float(spec.max_reward())
        sib_T = tuple(tuple((a, d, (tuple(x - 3 for x in rw) if isinstance(rw, tuple) else rw - 3)) for a, d, rw in row) for row in spec_item[2])
        sibling = build.SpecMDP(Spec(spec_item[:2] + (sib_T, tuple(sorted(set(spec_item[3]) | {max(spec.n - 2, 0)}))) + spec_item[4:]), SLAB[li], ALAB[li])
        for lname in LEARNERS:
            for (si, ei, ti, qi, pi_) in cfgs:
                alpha, eps, temp, episodes = STEP[si], EPS[ei], TEMP[ti], EPISODES[pi_]
                if INITQ[qi] == 'zero':
                    iq, iqf = 0.0, (lambda s, a: 0.0)
                elif INITQ[qi] == 'one':
                    iq, iqf = 1.0, (lambda s, a: 1.0)
                elif INITQ[qi] == 'minus8':
                    iq, iqf = -8.0, (lambda s, a: -8.0)
                else:
                    iqf = lambda s, a: 0.25 * (mdp.s_of[s] + 1) - (0.5 if mdp.a_of[a] == 'b' else 0.0)
                    iq = iqf
                ctx = {'learner': lname, 'step_size': alpha, 'epsilon': eps, 'temp': temp, 'initial_q': INITQ[qi], 'episodes': episodes}
                log = []

                class Listener(td.TDLearningEventListener):
                    def __init__(self):
                        self.ep_rewards = []
                        self.cur = 0

                    def end_of_timestep(self, lv):
                        tabs = [copy.deepcopy(dict(lv[k])) for k in (('q1', 'q2') if lname == 'DoubleQLearning' else ('q',))]
                        log.append(('step', lv['s'], lv['a'], lv['r'], lv['ns'], lv.get('na'), tabs))
                        self.cur += lv['r']

                    def end_of_episode(self, lv):
                        log.append(('end',))
                        self.ep_rewards.append(self.cur)
                        self.cur = 0

                    def results(self):
                        return self.ep_rewards

                reuse = (si + ei + qi) % 2 == 1

                def body(rng, seed=0):
                    learner = getattr(td, lname)(episodes=episodes, step_size=alpha, rand_choose=eps, softmax_temp=temp,
                                                 initial_q=iq, seed=seed, event_listener_class=Listener)
                    if reuse:
                        # learner objects are reusable: one earlier training run on a sibling problem (default answers, not explored)
                        with patched_random(Explorer(bound=0, max_points=600)):
                            try:
                                learner.train_on(sibling)
                            except BaseException:
                                pass
                    del log[:]
                    return learner.train_on(mdp)

                def init_row(ls):
                    s = mdp.s_of[ls]
                    return {al(a): (0.0 if s in A else float(iqf(ls, al(a)))) for a in spec.acts[s]}

                def judge(res, sched):
                    c = dict(ctx, schedule=sched)

                    def bad(kind, detail):
                        d = dict(c)
                        d.update(detail)
                        r.violation(kind, d, item)
                    ntab = 2 if lname == 'DoubleQLearning' else 1
                    ref = [dict() for _ in range(ntab)]

                    def row(t, ls):
                        if ls not in ref[t]:
                            ref[t][ls] = init_row(ls)
                        return ref[t][ls]
                    prev_ns = None
                    nsteps = 0
                    hist = []
                    for rec in log:
                        if rec[0] == 'end':
                            if prev_ns is not None and mdp.s_of[prev_ns] not in A:
                                bad('episode_ended_in_non_absorbing_state', {'state': repr(prev_ns)})
                            prev_ns = None
                            continue
                        _, ls, la, rew, lns, lna, tabs = rec
                        nsteps += 1
                        s, ns = mdp.s_of.get(ls), mdp.s_of.get(lns)
                        a = mdp.a_of.get(la)
                        hist.append((s, a, ns))
                        if s is None or s in A:
                            bad('step_from_absorbing_state', {'s': s})
                            return
                        if a not in spec.acts[s]:
                            bad('step_with_unavailable_action', {'s': s, 'a': repr(la)})
                            return
                        if ns is None or spec.T[s][a].get(ns, 0) == 0:
                            bad('step_not_a_transition', {'s': s, 'a': a, 'ns': ns})
                            return
                        if float(rew) != float(spec.R[s][a][ns]):
                            bad('step_reward', {'s': s, 'a': a, 'ns': ns, 'got': float(rew), 'want': spec.R[s][a][ns]})
                        if prev_ns is not None and prev_ns != ls:
                            bad('steps_do_not_chain', {'prev_ns': repr(prev_ns), 's': s})
                        prev_ns = lns
                        # ---- fold the published rule
                        if lname == 'DoubleQLearning':
                            for t in (0, 1):
                                row(t, ls), row(t, lns)
                            cands = []
                            for t in (0, 1):
                                o = 1 - t
                                m = max(ref[t][lns].values())
                                for astar in [x for x, v in ref[t][lns].items() if v == m]:
                                    new = ref[t][ls][la] + alpha * (rew + g * ref[o][lns][astar] - ref[t][ls][la])
                                    cands.append((t, new))
                            ok = None
                            for t, new in cands:
                                exp = [copy.deepcopy(ref[0]), copy.deepcopy(ref[1])]
                                exp[t][ls][la] = new
                                if all(_tables_close(exp[k], tabs[k], init_row) for k in (0, 1)):
                                    ok = (t, new)
                                    break
                            if ok is None:
                                bad('update_not_the_published_rule', {'step': nsteps, 's': s, 'a': a, 'r': float(rew), 'ns': ns,
                                                                      'candidates': cands, 'observed': [tabs[0].get(ls), tabs[1].get(ls)]})
                                return
                            ref[ok[0]][ls][la] = ok[1]
                            # continue from the tables the learner really holds (they agree with the fold up to the comparison
                            # tolerance): otherwise a step at which both tables explain the update equally well could be attributed
                            # to the wrong table and the reference would drift away over a long history
                            for k in (0, 1):
                                for ls2, row2 in tabs[k].items():
                                    if ls2 in ref[k]:
                                        ref[k][ls2] = {x: float(v) for x, v in dict(row2).items()}
                        else:
                            q = ref[0]
                            row(0, ls), row(0, lns)
                            if lname == 'QLearning':
                                boot = max(q[lns].values())
                            elif lname == 'SARSA':
                                if lna not in q[lns]:
                                    bad('next_action_unavailable', {'ns': ns, 'na': repr(lna)})
                                    return
                                boot = q[lns][lna]
                            else:
                                pol = eps_softmax(q[lns], eps, temp)
                                boot = sum(q[lns][x] * p for x, p in pol.items())
                            q[ls][la] = q[ls][la] + alpha * (rew + g * boot - q[ls][la])
                            if not _tables_close(q, tabs[0], init_row):
                                bad('update_not_the_published_rule', {'step': nsteps, 's': s, 'a': a, 'r': float(rew), 'ns': ns,
                                                                      'na': repr(lna), 'expected_row': q[ls], 'observed_row': tabs[0].get(ls)})
                                return
                    if res is None:
                        return tuple(hist)       # an execution cut at the point budget: only the experienced prefix is judged
                    # ---- the run made exactly the configured number of episodes and hands the listener's results over
                    n_end = sum(1 for rec in log if rec[0] == 'end')
                    if n_end != episodes:
                        bad('number_of_episodes', {'got': n_end, 'configured': episodes})
                    else:
                        sums, cur = [], 0
                        for rec in log:
                            if rec[0] == 'end':
                                sums.append(cur)
                                cur = 0
                            else:
                                cur += rec[3]
                        if list(getattr(res, 'event_listener_results', None) or []) != sums:
                            bad('event_listener_results_differ_from_the_episode_reward_sums',
                                {'got': repr(getattr(res, 'event_listener_results', None))[:200], 'want': sums})
                    # ---- returned table
                    out = res.q_values
                    if lname == 'DoubleQLearning':
                        want = {}
                        for ls in set(ref[0]) | set(ref[1]):
                            want[ls] = {x: 0.5 * row(0, ls)[x] + 0.5 * row(1, ls)[x] for x in init_row(ls)}
                    else:
                        want = ref[0]
                    got = {ls: dict(v) for ls, v in dict(out).items()}
                    # states whose row was only ever read keep their initial values; compare on the union
                    for ls in set(got) | set(want):
                        gr = got.get(ls, init_row(ls))
                        wr = want.get(ls, init_row(ls))
                        if set(gr) != set(wr) or any(abs(gr[x] - wr[x]) > 1e-9 for x in wr):
                            bad('returned_table_differs_from_fold', {'state': repr(ls), 'got': gr, 'want': wr})
                            break
                    for ls, gr in got.items():
                        if mdp.s_of[ls] in A and any(v != 0 for v in gr.values()):
                            bad('absorbing_state_not_zero', {'state': mdp.s_of[ls], 'row': gr})
                    if g < 1 and 0 <= alpha <= 1:
                        init_vals = [v for s in range(spec.n) if s not in A for v in init_row(sl(s)).values()]
                        lo = min(init_vals + [rmin / (1 - g), rmin]) - 1e-9
                        hi = max(init_vals + [rmax / (1 - g), rmax]) + 1e-9
                        for ls, gr in got.items():
                            if mdp.s_of[ls] not in A and any(not (lo <= v <= hi) for v in gr.values()):
                                bad('q_value_out_of_bounds', {'state': mdp.s_of[ls], 'row': gr, 'lo': lo, 'hi': hi})
                    # ---- returned policy
                    for s in range(spec.n):
                        ls = sl(s)
                        try:
                            pd = {k: v for k, v in res.policy.action_dist(ls).items() if v > 0}
                        except BaseException as e:
                            bad('policy_exception', {'s': s, 'error': repr(e)[:200]})
                            continue
                        if ls in got:
                            m = max(got[ls].values())
                            wantset = {x for x, v in got[ls].items() if v == m}
                        else:
                            wantset = {al(a) for a in spec.acts[s]}
                        if set(pd) != wantset or any(abs(v - 1 / len(wantset)) > 1e-12 for v in pd.values()):
                            bad('policy_not_uniform_over_maximisers', {'s': s, 'visited': ls in got, 'dist': {repr(k): v for k, v in pd.items()},
                                                                        'want': sorted(map(repr, wantset))})
                    return tuple(hist)

                ex = Explorer(bound=(2 if spec.n <= 2 else 1) + (1 if tier == 'thorough' else 0),
                              max_points=150 if tier == 'quick' else 250, max_execs=20000)
                hists = set()
                fps = {}

                def on_exec(out, e, trunc):
                    r.count('executions')
                    if trunc:
                        r.count('truncated_executions')
                        judge(None, e.devs())
                        return
                    h = judge(out, e.devs())
                    hists.add(h)
                    fps[tuple(e.devs())] = (h, repr(sorted((repr(k), sorted((repr(x), round(v, 12)) for x, v in dict(row_).items()))
                                                           for k, row_ in dict(out.q_values).items())))

                try:
                    with patched_random(ex):
                        ex.explore(body, on_exec)
                except (ZeroDivisionError, OverflowError, FloatingPointError) as e:
                    r.violation('learner_arithmetic_exception', dict(ctx, error=repr(e)[:200], schedule=ex.devs()), item)
                    continue
                r.count('states', ex.states)
                r.count('transitions', ex.transitions)
                if ex.capped:
                    r.count('capped_instances')
                if len(hists) >= 2:
                    r.nontriv((spec_item, lname, si, ei, ti, qi, pi_))
                for h in list(hists)[:50]:
                    r.outcome((spec_item, lname, h))
                for sched in list(fps)[-1:]:
                    with patched_random(ex):
                        out, trunc = ex.run_one(list(sched), body)
                    r.count('replays')
                    h = None if trunc else judge(out, list(sched))
                    if trunc or (h, repr(sorted((repr(k), sorted((repr(x), round(v, 12)) for x, v in dict(row_).items()))
                                                for k, row_ in dict(out.q_values).items()))) != fps[sched]:
                        r.violation('replay_nondeterministic', dict(ctx, schedule=list(sched)), item)
                for seed in (0, 11):
                    real = body(None, seed=seed)
                    judge(real, ['real seed', seed])
                    r.count('traces_validated')
                if hash(repr((item, lname, si, ei))) % 300 == 0:
                    r.sample({'spec': repr(spec_item), 'config': ctx, 'executions': ex.executions, 'distinct_histories': len(hists),
                              'one_history(s,a,ns)': list(next(iter(hists)) or ())[:8] if hists else None})
    return r


def _tables_close(exp, obs, init_row):
    for ls, rowv in exp.items():
        o = obs.get(ls)
        if o is None:
            continue      # a row that was never materialised in the live table still holds its initial values
        for x, v in rowv.items():
            if x not in o or abs(o[x] - v) > 1e-9:
                return False
    for ls, o in obs.items():
        if ls not in exp:
            w = init_row(ls)
            if set(w) != set(o) or any(abs(o[x] - w[x]) > 1e-9 for x in w):
                return False
    return True


def replay(rec):
    return check(item_from_record(rec), rec.get('tier', 'quick'))
