"""C05 -- A* and breadth-first search return valid minimum-cost / minimum-step paths.

E1 x E2: every small digraph with integer edge costs (zero-cost edges, self-loops, dead ends, multiple /
unreachable goals) x representation of the deterministic MDP x consistent heuristic x tie-breaking x
action-order option, and for the randomised configurations EVERY answer of the seeded generator
(shuffles and the lazy tie-break comparisons inside heapq).  Oracle: own Bellman-Ford / BFS over ints."""
import warnings
from itertools import combinations, permutations, product

from mc.run import Res, item_from_record
from mc.explore import Explorer, patched_random

ID = 'C05'
RULE = ("all digraphs on 3 nodes (out-degree <= 2, costs {0,1,2}, goal sets {2},{1,2},{}) and on 4 nodes (costs {0,1} goal {3}; "
        "costs {1,2} goals {2,3}) x 4 representations (next_state / DeterministicDistribution / single-entry DictDistribution / "
        "single-element UniformDistribution; rotating) x heuristics {0, exact, exact/2} x tie_breaking {lifo,fifo,random} x "
        "randomize_action_order x all generator answers (full branching). states/transitions = nodes/edges of the answer trees "
        "(1 per deterministic run); execution = one search run compared with the exact optimum. Non-trivial = a goal is reachable "
        "by >= 2 distinct simple paths or the instance has >= 2 executions. Plus the priority-queue family: 9-node fans for EVERY "
        "push order of a 6-entry queue (720) x revised entry r in 1..6 x every 13th (thorough: every) assignment of goal costs "
        "0..5 to the fan nodes x {lifo,fifo}, deterministic runs (thorough: + 10-node fans, 5040 push orders, every 89th assignment).")
ASSUMPTIONS = [
    "edge costs are small non-negative integers (rewards = -cost), so all float sums are exact",
    "heuristics are consistent by construction (0, exact cost-to-go, half of it) and finite-valued: states that cannot reach a goal get the value 1000 instead of infinity (with infinite heuristic values A*'s stale-node assertion can fire on dead ends; not judged)",
    "random() draws are observed only through comparisons inside heapq",
]
BUDGET = {'quick': 900, 'thorough': 7200}
CHUNK = {'quick': 64, 'thorough': 64}
MANIFEST = {'engines': ['E1-enum', 'E2-explore'],
            'technique': 'bounded-exhaustive graph enumeration + stateless exploration of all RNG answers of the real A*/BFS vs exact shortest paths'}
REPR = ['next_state', 'det', 'dict', 'uniform', 'dict_zero']      # dict_zero: the single outcome plus an entry with probability 0
INF = float('inf')


def bounds(tier):
    return {'quick': '3 nodes full (costs {0,1,2}); 4 nodes costs {0,1} goal {3}, costs {1,2} goals {2,3}; full RNG branching (cap 3000 executions/instance); queue family k=6: 720 push orders x 6 x 55-56 goal-cost assignments x 2',
            'thorough': '+ queue family k=6 complete (720 x 6 x 720 x 2) and k=7 (5040 x 7 x 56-57 x 2) + wide-fan graphs on 10-14 nodes (deterministic order + random tie-breaks) + 4 nodes costs {0,1,2} goal {3}'}[tier]


def node_options(n, costs, max_out=2, ordered=False):
    single = [((t, c),) for t in range(n) for c in costs]
    opts = [()] + single
    if max_out >= 2:
        opts += [a + b for a, b in (permutations(single, 2) if ordered else combinations(single, 2))]
    return opts


def dense_graphs():
    """Layered / dense DAGs on 6-9 nodes in which almost every expansion revises several queued nodes
    (many best-in-queue replacements, interior heap positions), plus shuffled action orders."""
    for n in (6, 7, 8, 9):
        for pat in range(6):
            edges = []
            for i in range(n):
                out = []
                for j in range(i + 1, n):
                    d = j - i
                    c = [d * d, 2 * d - 1, 3 * d + (j % 2), d * (n - j), 1 + (i * j) % 5, (d * 7) % 4 + d][pat]
                    out.append((j, c))
                if pat % 2 == 1:
                    out = out[::-1]
                if pat % 3 == 2 and len(out) > 2:
                    out = out[1:] + out[:1]
                edges.append(tuple(out))
            yield (n, tuple(edges), (n - 1,))
            # same with a couple of back edges and a second goal
            e2 = list(edges)
            e2[n - 2] = e2[n - 2] + ((0, 1),)
            e2[2] = e2[2] + ((1, 0),)
            yield (n, tuple(e2), (n - 1, n - 3))


def fan_graphs():
    """Wide fans (12-14 nodes): the start reaches a zero-cost hub and k nodes at distinct costs (a full priority queue);
    the hub, expanded first, reaches one or two of the queued nodes more cheaply (revision at an interior queue
    position); every fan node reaches the goal at a patterned cost."""
    for k in (7, 8, 9, 10, 11):
        n = k + 3
        goal, hub = n - 1, n - 2
        base = list(range(2, 2 + k))
        for rot in range(k):
            for rev in (0, 1):
                costs = base[rot:] + base[:rot]
                if rev:
                    costs = costs[::-1]
                for r in range(1, k + 1):
                    for r2 in (0, (r % k) + 1, ((r + 3) % k) + 1):
                        for gpat in range(6):
                            edges = [()] * n
                            edges[0] = ((hub, 0),) + tuple((i, costs[i - 1]) for i in range(1, k + 1))
                            edges[hub] = ((r, 1),) + (((r2, 2),) if r2 else ())
                            for i in range(1, k + 1):
                                g = [3, (i * 5) % 7, k - i, (i * i) % 5, (i * 3 + 1) % 4, abs(k // 2 - i)][gpat]
                                edges[i] = ((goal, g),)
                            yield (n, tuple(edges), (goal,))


def graph_items(tier):
    # 3 nodes
    o3 = node_options(3, [0, 1, 2], ordered=True)     # ordered pairs: also the dearer of two parallel edges listed first
    for g in product(o3, o3):
        yield (3, g + ((),), (2,))
    yield from dense_graphs()
    for g0 in o3:
        yield (3, (g0, (), ()), (1, 2))
        yield (3, (g0, ((0, 1),), ((1, 0),)), (0,))
    o3s = node_options(3, [0, 1, 2], max_out=1)
    for g in product(o3s, repeat=3):
        yield (3, g, ())
    # 4 nodes
    o4 = node_options(4, [0, 1])
    for g in product(o4, repeat=3):
        yield (4, g + ((),), (3,))
    o4b = node_options(4, [1, 2])
    for g in product(o4b, repeat=2):
        yield (4, g + ((), ()), (2, 3))
    if tier == 'thorough':
        yield from fan_graphs()
        o4c = node_options(4, [0, 1, 2])
        for g in product(o4c, repeat=3):
            yield (4, g + ((),), (3,))


def items(tier, seed):
    for i, g in enumerate(graph_items(tier)):
        yield (g, (i + seed) % 5, (i // 5 + seed) % 2)
    # priority-queue family: every push order of a 6-entry queue (thorough: + 7 entries), see check_queue_family
    for ci in range(720):
        yield ('queue', 6, ci, 13 if tier == 'quick' else 1, seed % 13)
    if tier == 'thorough':
        for ci in range(5040):
            yield ('queue', 7, ci, 89, seed % 89)


def check_queue_family(item, tier):
    """Fans whose start node pushes a zero-cost hub and k nodes with costs = the ci-th permutation of 2..k+1 (every push
    order of a k-entry priority queue); the hub, expanded first, reaches fan node r at cost 1 (a revision of an entry at any
    queue position); fan node i reaches the goal at cost gp[i] for every stride-th permutation gp of 0..k-1.  Deterministic
    A* runs (zero heuristic, lifo and fifo tie-breaking), each compared with the exact optimum."""
    from msdm.algorithms.search import AStarSearch
    r = Res()
    _, k, ci, stride, offset = item
    n = k + 3
    goal, hub = n - 1, n - 2
    for j, costs in enumerate(permutations(range(2, 2 + k))):
        if j == ci:
            break
    gperms = list(permutations(range(k)))
    with warnings.catch_warnings():
        warnings.simplefilter('ignore')
        for rr in range(1, k + 1):
            for gp in gperms[(ci * 7 + rr + offset) % stride::stride]:
                edges = [()] * n
                edges[0] = ((hub, 0),) + tuple((i, costs[i - 1]) for i in range(1, k + 1))
                edges[hub] = ((rr, 1),)
                for i in range(1, k + 1):
                    edges[i] = ((goal, gp[i - 1]),)
                edges = tuple(edges)
                cost, hops = exact(n, edges, {goal})
                prob, lab, unlab = build_problem(n, edges, {goal}, 'next_state', (ci + rr) % 2)
                step = [{t: c for t, c in e} for e in edges]
                for tb in ('lifo', 'fifo'):
                    r.count('executions')
                    r.count('states')
                    r.count('transitions')
                    ctx = {'heuristic': 'zero', 'tie_breaking': tb, 'graph': (n, edges, (goal,))}
                    try:
                        res = AStarSearch(heuristic_value=lambda s: 0, tie_breaking_strategy=tb).plan_on(prob)
                        path = [unlab.get(x) for x in res.path]
                    except BaseException as e:
                        r.violation('exception', dict(ctx, error=repr(e)[:300]), item)
                        continue
                    if path[0] != 0 or path[-1] != goal or any(v not in step[u] for u, v in zip(path, path[1:])):
                        r.violation('path_not_a_start_to_goal_path', dict(ctx, path=path), item)
                        continue
                    total = sum(step[u][v] for u, v in zip(path, path[1:]))
                    if res.path_value != total:
                        r.violation('path_value_not_path_cost', dict(ctx, path=path, path_value=res.path_value, cost=total), item)
                    if total != cost[0]:
                        r.violation('path_not_minimum_cost', dict(ctx, path=path, cost=total, optimum=cost[0]), item)
                    r.outcome((k, tuple(path) if len(path) == 3 else ('via_hub',), total))
        r.nontriv(item)
    return r


def exact(n, edges, goals):
    """cost-to-go (min total cost to any goal), hops-to-go, per node; INF if unreachable."""
    cost = [0 if s in goals else INF for s in range(n)]
    hops = [0 if s in goals else INF for s in range(n)]
    for _ in range(n + 1):
        for s in range(n):
            if s in goals:
                continue
            for t, c in edges[s]:
                if cost[t] + c < cost[s]:
                    cost[s] = cost[t] + c
                if hops[t] + 1 < hops[s]:
                    hops[s] = hops[t] + 1
    return cost, hops


def build_problem(n, edges, goals, kind, strlabels):
    from msdm.core.mdp import MarkovDecisionProcess
    from msdm.core.mdp.deterministic_shortest_path import DeterministicShortestPathProblem
    from msdm.core.distributions import DeterministicDistribution, DictDistribution, UniformDistribution
    lab = (lambda i: 'n%d' % i) if strlabels else (lambda i: i)
    unlab = {lab(i): i for i in range(n)}
    names = 'abcdefghijklmnop'

    def acts(s):
        return tuple(names[k] for k in range(len(edges[unlab[s]])))

    def nxt(s, a):
        return lab(edges[unlab[s]][names.index(a)][0])

    def rew(s, a, ns):
        return -edges[unlab[s]][names.index(a)][1]

    def absorbing(s):
        return unlab[s] in goals
    if kind == 'next_state':
        class P(DeterministicShortestPathProblem):
            def initial_state(self): return lab(0)
            def next_state(self, s, a): return nxt(s, a)
            def actions(self, s): return acts(s)
            def reward(self, s, a, ns): return rew(s, a, ns)
            def is_absorbing(self, s): return absorbing(s)
        return P(), lab, unlab
    mk = {'det': lambda x: DeterministicDistribution(x), 'dict': lambda x: DictDistribution({x: 1.0}),
          'uniform': lambda x: UniformDistribution((x,)),
          'dict_zero': lambda x: DictDistribution({x: 1.0, lab((unlab[x] + 1) % n): 0.0} if n > 1 else {x: 1.0})}[kind]

    class M(MarkovDecisionProcess):
        discount_rate = 1.0
        def initial_state_dist(self): return mk(lab(0))
        def next_state_dist(self, s, a): return mk(nxt(s, a))
        def actions(self, s): return acts(s)
        def reward(self, s, a, ns): return rew(s, a, ns)
        def is_absorbing(self, s): return absorbing(s)
    return M(), lab, unlab


def count_paths(n, edges, goals, limit=2):
    """number of distinct simple paths from node 0 to a goal (capped)."""
    cnt = 0
    stack = [(0, frozenset([0]))]
    while stack and cnt < limit:
        s, seen = stack.pop()
        if s in goals:
            cnt += 1
            continue
        for t, c in edges[s]:
            if t not in seen:
                stack.append((t, seen | {t}))
    return cnt


def check(item, tier):
    from msdm.algorithms.search import AStarSearch, BreadthFirstSearch
    if item[0] == 'queue':
        return check_queue_family(item, tier)
    r = Res()
    (n, edges, goals), ki, strl = item
    goals = set(goals)
    cost, hops = exact(n, edges, goals)
    reach = {0}
    st = [0]
    while st:
        u = st.pop()
        if u in goals:
            continue
        for t, c in edges[u]:
            if t not in reach:
                reach.add(t)
                st.append(t)
    with warnings.catch_warnings():
        warnings.simplefilter('ignore')
        prob, lab, unlab = build_problem(n, edges, goals, REPR[ki], strl)
        # heuristics are finite-valued: a state that cannot reach a goal gets 1000 (still consistent)
        fin = [c if c != INF else 1000 for c in cost]
        heur = {'zero': lambda s: 0, 'exact': lambda s: -fin[unlab[s]], 'half': lambda s: -fin[unlab[s]] / 2}
        if count_paths(n, edges, goals) >= 2:
            r.nontriv((n, edges, tuple(sorted(goals))))

        def judge(res, algo, ctx):
            def bad(kind, detail):
                d = dict(ctx, algo=algo, repr=REPR[ki])
                d.update(detail)
                r.violation(kind, d, item)
            want = cost[0] if algo == 'astar' else hops[0]
            if res is None:
                if want != INF:
                    bad('no_plan_but_goal_reachable', {'optimum': want})
                return
            if want == INF:
                bad('plan_but_no_goal_reachable', {'path': [repr(x) for x in res.path]})
                return
            path = [unlab.get(x) for x in res.path]
            if path[0] != 0:
                bad('path_start', {'path': path})
                return
            if path[-1] not in goals:
                bad('path_end_not_absorbing', {'path': path})
                return
            total = 0
            for u, v in zip(path, path[1:]):
                try:
                    ad = dict(res.policy.action_dist(lab(u)).items())
                except BaseException as e:
                    bad('policy_undefined_on_path', {'state': u, 'error': repr(e)[:200]})
                    return
                acts = [a for a, p in ad.items() if p > 0]
                if len(acts) != 1 or acts[0] not in 'abcdefghijklmnop'[:len(edges[u])]:
                    bad('policy_not_a_single_available_action', {'state': u, 'dist': repr(ad)})
                    return
                t, c = edges[u]['abcdefghijklmnop'.index(acts[0])]
                if t != v:
                    bad('path_hop_not_a_transition_under_policy', {'path': path, 'state': u, 'action': acts[0], 'leads_to': t})
                    return
                total += c
            if algo == 'astar':
                if res.path_value != total:
                    bad('path_value_not_path_cost', {'path': path, 'path_value': res.path_value, 'cost': total})
                if total != want:
                    bad('path_not_minimum_cost', {'path': path, 'cost': total, 'optimum': want})
            else:
                if len(path) - 1 != want:
                    bad('path_not_minimum_steps', {'path': path, 'steps': len(path) - 1, 'optimum': want})
            vis = {unlab.get(x) for x in res.visited}
            if not vis <= (reach - goals):
                bad('visited_not_reachable_nongoal', {'visited': sorted(map(repr, vis))})

        def fp(res):
            if res is None:
                return None
            return (tuple(map(repr, res.path)), getattr(res, 'path_value', None), tuple(sorted(map(repr, res.visited))))

        # conversion wrappers must be independent: convert this MDP, then convert a different one, then search on the first wrapper
        if REPR[ki] != 'next_state':
            from msdm.core.mdp.deterministic_shortest_path import DeterministicShortestPathProblem as DSP
            try:
                p1 = DSP.from_mdp(prob)
                other_edges = tuple(tuple((t, c + 3) for t, c in e[::-1]) for e in edges[::-1])
                other, _, _ = build_problem(n, other_edges, {0}, REPR[ki], strl)
                DSP.from_mdp(other)
                for algo2, resx in (('astar', AStarSearch(heuristic_value=heur['zero']).plan_on(p1)), ('bfs', BreadthFirstSearch().plan_on(p1))):
                    r.count('executions')
                    judge(resx, algo2, {'heuristic': 'zero', 'tie_breaking': 'lifo', 'randomize_action_order': False,
                                        'converted_before_another_mdp': True})
            except BaseException as e:
                r.violation('exception', {'where': 'from_mdp interleaving', 'error': repr(e)[:300], 'repr': REPR[ki]}, item)
        configs = [('bfs', None, None, False), ('bfs', None, None, True)]
        for hk in heur:
            for tb in ('lifo', 'fifo', 'random'):
                for rao in (False, True):
                    configs.append(('astar', hk, tb, rao))
        maxdeg = max(len(e) for e in edges)
        for algo, hk, tb, rao in configs:
            if rao and maxdeg > 4:
                continue        # shuffles of more than 5 actions are not enumerated (dense family: deterministic order + random tie-breaks)
            ctx = {'heuristic': hk, 'tie_breaking': tb, 'randomize_action_order': rao}
            randomized = rao or tb == 'random'

            def body(rng, seed=0):
                if algo == 'bfs':
                    return BreadthFirstSearch(seed=seed if randomized else None, randomize_action_order=rao).plan_on(prob)
                return AStarSearch(heuristic_value=heur[hk], seed=seed if randomized else None, randomize_action_order=rao,
                                   tie_breaking_strategy=tb).plan_on(prob)
            if not randomized:
                r.count('executions')
                r.count('states')
                r.count('transitions')
                try:
                    res = body(None)
                except BaseException as e:
                    r.violation('exception', dict(ctx, algo=algo, repr=REPR[ki], error=repr(e)[:300]), item,
                                finding=None)
                    continue
                judge(res, algo, ctx)
                continue
            ex = Explorer(bound=None, max_points=120, max_execs=3000 if tier == 'quick' else 20000)
            fps = {}
            failed = []

            def on_exec(out, e, trunc):
                r.count('executions')
                if trunc:
                    r.count('truncated_executions')
                    return
                judge(out, algo, dict(ctx, schedule=e.devs()))
                fps[tuple(e.devs())] = fp(out)
            try:
                with patched_random(ex):
                    ex.explore(body, on_exec)
            except (AssertionError, TypeError, KeyError, IndexError, ValueError) as e:
                r.violation('exception', dict(ctx, algo=algo, repr=REPR[ki], error=repr(e)[:300], schedule=ex.devs()), item)
                continue
            r.count('states', ex.states)
            r.count('transitions', ex.transitions)
            if ex.capped:
                r.count('capped_instances')
            if ex.executions >= 2:
                r.nontriv((n, edges, tuple(sorted(goals)), algo, hk, tb, rao))
            for f in set(fps.values()):
                r.outcome((item, algo, hk, tb, rao, f))
            for sched in list(fps)[-1:]:
                with patched_random(ex):
                    out, trunc = ex.run_one(list(sched), body)
                r.count('replays')
                if trunc or fp(out) != fps[sched]:
                    r.violation('replay_nondeterministic', dict(ctx, algo=algo, schedule=list(sched)), item)
            if hk in (None, 'half'):
                for seed in (0, 3):
                    try:
                        real = body(None, seed=seed)
                        ex2 = Explorer(bound=None, max_points=1000)
                        with patched_random(ex2, real_seed_from_arg=True):
                            out, trunc = ex2.run_one([], lambda rng: body(rng, seed=seed))
                    except BaseException as e:
                        r.violation('exception', dict(ctx, algo=algo, repr=REPR[ki], error=repr(e)[:300], real_seed=seed), item)
                        continue
                    r.count('traces_validated')
                    judge(real, algo, dict(ctx, real_seed=seed))
                    leaf = tuple(t[3] for t in ex2.trace)
                    if trunc or fp(out) != fp(real):
                        r.violation('conformance_result_differs', dict(ctx, algo=algo, seed=seed), item)
                    elif not ex.capped and ex.truncated == 0 and leaf not in ex.leaves:
                        r.violation('conformance_path_not_explored', dict(ctx, algo=algo, seed=seed), item)
    if hash(repr(item)) % 4000 == 0:
        r.sample({'nodes': n, 'edges(target,cost) per node': edges, 'goals': sorted(goals), 'representation': REPR[ki],
                  'optimal_cost': cost[0], 'optimal_steps': hops[0]})
    return r


def replay(rec):
    return check(item_from_record(rec), rec.get('tier', 'quick'))
