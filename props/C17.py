"""C17 -- R-MAX stays optimistic about what it has not tried often enough.

E1 x E2: proper MDP specs with uniform action sets x sample thresholds x episode counts; every
experienced history within deviation bound d of the fair default schedule is enumerated; a listener
records the experience, from which the oracle recomputes the visit counts and the empirical model
built from the first m samples of each pair, and checks optimism, the Bellman residual of known
pairs and greediness of the returned policy."""
import warnings
from fractions import Fraction as F

import numpy as np

from mc.run import Res, item_from_record
from mc import build
from mc.refmdp import Spec
from mc.explore import Explorer, patched_random

ID = 'C17'
RULE = ("proper MDP specs whose states all offer the whole action list (n=2: action lists {a},{a,b}; n=3 reduced; gamma in {1/2,9/10}) "
        "x thresholds m in 1..3 (thorough 1..5) x episodes 1..3 (rotating pairs) x ALL experienced histories within deviation bound d. "
        "states/transitions = nodes/edges of the answer trees; execution = one complete training run. Non-trivial = instance with >= 2 "
        "distinct histories in which at least one pair became known.")
ASSUMPTIONS = [
    "rmax is passed as max(reward_matrix) as the implementation's own precondition demands",
    "optimistic value compared with Rmax/(1-gamma) computed in rationals at 1e-9 relative tolerance; all never-updated cells must be bit-identical",
    "Bellman residual of known pairs < bellman_convergence_diff (+1e-12) against the empirical model of the first m samples, unknown pairs (incl. absorbing states' pairs) being optimistic self-loops",
]
BUDGET = {'quick': 900, 'thorough': 7200}
CHUNK = {'quick': 2, 'thorough': 2}
MANIFEST = {'engines': ['E1-enum', 'E2-explore'],
            'technique': 'stateless deviation-bounded exhaustive exploration of all experienced histories of the real R-MAX; model and counts rebuilt from the recorded experience'}
SLAB = ['int', 'rev', 'str', 'tup', 'fd']
ALAB = ['ab', 'rev', 'ab', 'rev', 'fd']


def bounds(tier):
    return {'quick': {'n=2': 'deviation bound 3', 'n=3': 'deviation bound 2', 'm': [1, 2, 3], 'episodes': [1, 2, 3], 'configs_per_spec': 3},
            'thorough': {'n=2': 'deviation bound 4', 'n=3': 'deviation bound 3', 'm': [1, 2, 3, 4, 5], 'episodes': [1, 2, 3, 4]}}[tier]


def spec_items(tier):
    rb = lambda g: [F(-1), F(0), F(1)]
    inits2 = [((0, F(1)),), ((0, F(1, 2)), (1, F(1, 2)))]
    for aset in [('a',), ('a', 'b')]:
        for n in (2, 3):
            goal = n - 1
            gopt = [tuple((a, ((goal, F(1)),), F(0)) for a in aset)]
            if n == 2:
                yield from build.proper_mdps(2, [F(1, 2), F(9, 10)], rb, inits2, action_sets=(aset,), goal_opts=gopt)
            elif tier == 'thorough' or aset == ('a', 'b'):
                yield from build.proper_mdps(3, [F(9, 10)], (lambda g: [F(-1), F(1)]) if tier == 'thorough' else (lambda g: [F(-1)]),
                                             [((0, F(1)),)], action_sets=(aset,), goal_opts=gopt, reduce_pairs=True)


def items(tier, seed):
    ms = [1, 2, 3] if tier == 'quick' else [1, 2, 3, 4, 5]
    eps = [1, 2, 3] if tier == 'quick' else [1, 2, 3, 4]
    extra = []
    one = F(1)
    for leak in (F(1, 4), F(1, 2)):
        # two-state low-reward cycle that leaks slowly to the goal under a discount close to 1 (planning needs many sweeps)
        T = ((('a', ((1, one),), F(0)), ('b', ((0, 1 - leak), (2, leak)), (F(0), F(1)))),
             (('a', ((0, one),), F(0)), ('b', ((1, 1 - leak), (2, leak)), (F(0), F(1)))),
             (('a', ((2, one),), F(0)), ('b', ((2, one),), F(0))))
        extra.append(('mdp', 3, T, (2,), ((0, one),), F(999, 1000)))
    for i, it in enumerate(list(spec_items(tier)) + extra):
        if i % 2 == 1:
            it = build.with_ns_rewards(it)
        cfgs = sorted({(ms[(i + j + seed) % len(ms)], eps[(i // 2 + 2 * j + seed) % len(eps)]) for j in range(3 if tier == 'quick' else 6)})
        yield (it, (i + seed) % 5, tuple(cfgs))


def check(item, tier):
    import msdm.algorithms.rmax as rm
    r = Res()
    spec_item, li, cfgs = item
    spec = Spec(spec_item)
    A = spec.abs_explicit
    g = float(spec.gamma)
    with warnings.catch_warnings():
        warnings.simplefilter('ignore')
        mdp = build.SpecMDP(spec, SLAB[li], ALAB[li])
        sl, al = mdp.sl, mdp.al
        if len(mdp.state_list) != spec.n:
            # states the initial distribution never reaches: still a finite MDP once the state list is given explicitly
            mdp = build.SpecMDP(spec, SLAB[li], ALAB[li], explicit_lists=True)
            sl, al = mdp.sl, mdp.al
            r.count('explicit_state_list_with_unreachable_states')
            if len(mdp.state_list) != spec.n:
                r.count('skipped_unreachable_states')
                return r
        rmax = float(np.max(mdp.reward_matrix))
        try:
            bigger = build.SpecMDP(Spec(build.with_zero_entry(spec_item, 'outside')[0]), SLAB[li], ALAB[li], explicit_lists=True)
            if float(np.max(bigger.reward_matrix)) != rmax or len(bigger.state_list) == len(mdp.state_list):
                bigger = None
        except Exception:
            bigger = None
        opt = F(rmax).limit_denominator(1000) / (1 - spec.gamma)
        acts = spec.acts[0]
        for (m, episodes) in cfgs:
            diff = [1e-5, 1e-8, 1e-3][(m + 2 * episodes + li) % 3]     # configured planning tolerance rotates
            ctx = {'m': m, 'episodes': episodes, 'rmax': rmax, 'bellman_convergence_diff': diff}
            log = []

            class Listener(rm.RMAXEventListener):
                def __init__(self):
                    pass

                def end_of_timestep(self, lv):
                    log.append(('step', lv['s'], lv['a'], lv['r'], lv['ns']))

                def end_of_episode(self, lv):
                    log.append(('end',))

                def results(self):
                    return None

            reuse = (m + episodes) % 2 == 1

            def body(rng, seed=0):
                learner = rm.RMAX(episodes=episodes, rmax=rmax, num_transition_samples=m, bellman_convergence_diff=diff, seed=seed,
                                  event_listener_class=Listener)
                if reuse:
                    # learner objects are reusable: one earlier training run (default answers, not explored) on the same problem,
                    # or on a sibling with one more listed state (tables of another size)
                    with patched_random(Explorer(bound=0, max_points=600)):
                        try:
                            learner.train_on(bigger if (m + episodes) % 4 == 1 and bigger is not None else mdp)
                        except BaseException:
                            pass
                del log[:]
                return learner.train_on(mdp)

            def judge(res, sched):
                c = dict(ctx, schedule=sched)

                def bad(kind, detail):
                    d = dict(c)
                    d.update(detail)
                    r.violation(kind, d, item)
                counts = {}
                first = {}
                prev = None
                hist = []
                for rec in log:
                    if rec[0] == 'end':
                        if prev is not None and mdp.s_of[prev] not in A:
                            bad('episode_ended_in_non_absorbing_state', {})
                        prev = None
                        continue
                    _, ls, la, rew, lns = rec
                    s, a, ns = mdp.s_of.get(ls), mdp.a_of.get(la), mdp.s_of.get(lns)
                    hist.append((s, a, ns))
                    if s is None or s in A or a not in spec.acts[s] or ns is None or spec.T[s][a].get(ns, 0) == 0:
                        bad('step_not_a_real_transition', {'s': s, 'a': a, 'ns': ns})
                        return None
                    if float(rew) != float(spec.R[s][a][ns]):
                        bad('step_reward', {'s': s, 'a': a, 'ns': ns, 'got': float(rew)})
                    if prev is not None and prev != ls:
                        bad('steps_do_not_chain', {})
                    prev = lns
                    counts[s, a] = counts.get((s, a), 0) + 1
                    if counts[s, a] <= m:
                        first.setdefault((s, a), []).append((float(rew), ns))
                q = {s: {a: float(res.q_values[sl(s)][al(a)]) for a in acts} for s in range(spec.n)}
                optf = float(opt)
                unknown_vals = set()
                for s in range(spec.n):
                    for a in acts:
                        v = q[s][a]
                        if v > optf * (1 + 1e-9) + 1e-9 if optf >= 0 else v > optf * (1 - 1e-9) + 1e-9:
                            bad('q_exceeds_optimistic_value', {'s': s, 'a': a, 'q': v, 'bound': optf})
                        if counts.get((s, a), 0) < m:
                            unknown_vals.add(v)
                            if abs(v - optf) > 1e-9 * max(1.0, abs(optf)):
                                bad('unknown_pair_not_optimistic', {'s': s, 'a': a, 'q': v, 'want': optf, 'count': counts.get((s, a), 0)})
                if len(unknown_vals) > 1:
                    bad('unknown_pairs_not_identical', {'values': sorted(unknown_vals)})
                vmax = {s: max(q[s].values()) for s in range(spec.n)}
                known = 0
                for (s, a), samples in first.items():
                    if counts[s, a] < m:
                        continue
                    known += 1
                    rhat = sum(x for x, _ in samples) / m
                    boot = sum(vmax[ns] for _, ns in samples) / m
                    want = rhat + g * boot
                    if abs(q[s][a] - want) >= diff + 1e-12:
                        bad('known_pair_bellman_residual', {'s': s, 'a': a, 'q': q[s][a], 'model_backup': want, 'samples': samples})
                for s in range(spec.n):
                    pd = {k: v for k, v in res.policy.action_dist(sl(s)).items() if v > 0}
                    best = {al(a) for a in acts if q[s][a] == vmax[s]}
                    if set(pd) != best or any(abs(v - 1 / len(best)) > 1e-12 for v in pd.values()):
                        bad('policy_not_greedy', {'s': s, 'dist': {repr(k): v for k, v in pd.items()}, 'q': q[s]})
                return tuple(hist), known

            ex = Explorer(bound=(3 if spec.n <= 2 else 2) + (1 if tier == 'thorough' else 0),
                          max_points=150 if tier == 'quick' else 250, max_execs=20000)
            hists = set()
            anyknown = [False]
            fps = {}

            def on_exec(out, e, trunc):
                r.count('executions')
                if trunc:
                    r.count('truncated_executions')
                    return
                j = judge(out, e.devs())
                if j is not None:
                    hists.add(j[0])
                    anyknown[0] |= j[1] > 0
                    fps[tuple(e.devs())] = (j[0], repr(sorted((repr(k), sorted((repr(x), float(v)) for x, v in row.items()))
                                                              for k, row in out.q_values.items())))
            try:
                with patched_random(ex):
                    ex.explore(body, on_exec)
            except (IndexError, KeyError, ValueError, AssertionError, TypeError, ZeroDivisionError) as e:
                import traceback
                if 'msdm/algorithms/rmax.py' not in ''.join(traceback.format_tb(e.__traceback__)[-2:]):
                    raise
                r.violation('rmax_exception', dict(ctx, error=repr(e)[:300], schedule=ex.devs()), item)
                continue
            r.count('states', ex.states)
            r.count('transitions', ex.transitions)
            if ex.capped:
                r.count('capped_instances')
            if len(hists) >= 2 and anyknown[0]:
                r.nontriv((spec_item, m, episodes))
            for h in list(hists)[:50]:
                r.outcome((spec_item, m, h))
            for sched in list(fps)[-1:]:
                with patched_random(ex):
                    out, trunc = ex.run_one(list(sched), body)
                r.count('replays')
                j = None if trunc else judge(out, list(sched))
                if j is None or (j[0], repr(sorted((repr(k), sorted((repr(x), float(v)) for x, v in row.items()))
                                                   for k, row in out.q_values.items()))) != fps[sched]:
                    r.violation('replay_nondeterministic', dict(ctx, schedule=list(sched)), item)
            for seed in (0, 13):
                real = body(None, seed=seed)
                judge(real, ['real seed', seed])
                r.count('traces_validated')
            if hash(repr((item, m, episodes))) % 200 == 0:
                r.sample({'spec': repr(spec_item), 'config': ctx, 'executions': ex.executions, 'distinct_histories': len(hists),
                          'one_history(s,a,ns)': list(next(iter(hists)))[:8] if hists else None})
    return r


def replay(rec):
    return check(item_from_record(rec), rec.get('tier', 'quick'))
